#!/bin/sh
# Runs the repository's baseline test suite in $1 (default /repo) and compares with BASELINE.json's stable_pass list.
R="${1:-/repo}"
OUT="$(mktemp -d)"
cd "$R" && /venv/bin/python -m pytest -q -p no:cacheprovider --timeout=900 --continue-on-collection-errors --junitxml="$OUT/j.xml" > "$OUT/log" 2>&1
/venv/bin/python - "$OUT/j.xml" <<'PY'
import json, sys, xml.etree.ElementTree as ET
base = json.load(open("/root/.vp/BASELINE.json"))
want = set(base["stable_pass"])
passed = set()
for tc in ET.parse(sys.argv[1]).getroot().iter("testcase"):
    name = "%s::%s" % (tc.get("classname"), tc.get("name"))
    if not any(ch.tag in ("failure", "error", "skipped") for ch in tc):
        passed.add(name)
missing = sorted(want - passed)
print("baseline: %d/%d stable tests pass; newly passing: %d" % (len(want & passed), len(want), len(passed - want)))
for m in missing: print("  MISSING", m)
sys.exit(1 if missing else 0)
PY
rc=$?
rm -rf "$OUT"
# the tests write output tables into examples/: remove what is untracked there (git trees only)
[ -e "$R/.git" ] && git -C "$R" clean -fdq examples 2>/dev/null
exit $rc
