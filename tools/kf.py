#!/usr/bin/env python3
"""kf.py STATUS PROPERTY BUCKET COMMIT REPLAY WHAT  - append an entry to known_findings.json (developer tool; never run by checks)."""
import json, sys, os
HERE = os.path.dirname(os.path.dirname(os.path.abspath(__file__)))
status, prop, bucket, commit, replay, what = sys.argv[1:7]
p = os.path.join(HERE, "known_findings.json")
d = json.load(open(p))
e = {"status": status, "property": prop, "bucket": bucket, "what": what, "replay": replay}
if status == "fixed":
    e["commit"] = commit
    e["line"] = "fixed: property=%s %s %s" % (prop, commit, what)
d["findings"] = [f for f in d["findings"] if not (f["property"] == prop and f["bucket"] == bucket)] + [e]
json.dump(d, open(p, "w"), indent=1)
open(p, "a").write("\n")
