#!/bin/sh
# tools/run_all.sh TIER [SEED...]  - run every check once per seed, print one summary line each (developer tool)
TIER="${1:-quick}"; shift
SEEDS="${@:-1}"
cd "$(dirname "$0")/.."
for seed in $SEEDS; do
  for p in C01 C02 C03 C04 C05 C06 C07 C08 C09 C10 C11 C12 C13 C14 C15 C16 C17 C18 C19 C20; do
    out=$(VERIF_SEED=$seed ./check $p --tier $TIER --no-evidence 2>&1); rc=$?
    echo "seed=$seed $p rc=$rc $(echo "$out" | grep '^property=' | tail -1)"
    if [ $rc -ne 0 ]; then echo "$out" | grep -E "bucket=|VIOLATION|HARNESS|Error" | head -8; fi
  done
done
