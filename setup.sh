#!/bin/sh
# MANIFEST.setup_cmd: offline only.  Installs hypothesis into /venv if it is missing, atheris into
# /verif/.deps (used only by thorough fuzz targets), validates MANIFEST.json.
HERE="$(cd "$(dirname "$0")" && pwd)"
cd "$HERE" || exit 2
WH=/opt/veriftools/wheels
/venv/bin/python -c "import hypothesis" 2>/dev/null || \
  /venv/bin/pip install --no-index --find-links "$WH" hypothesis >/dev/null 2>&1 || echo "setup: could not install hypothesis"
if [ ! -d "$HERE/.deps/atheris" ]; then
  /venv/bin/pip install --no-index --find-links "$WH" --target "$HERE/.deps" atheris >/dev/null 2>&1 || echo "setup: atheris not installed (fuzz tier will be skipped)"
fi
mkdir -p "$HERE/evidence" "$HERE/replays"
/venv/bin/python - <<'PY'
import json, sys
try:
    import jsonschema
    m = json.load(open("MANIFEST.json"))
    s = json.load(open("/root/.vp/MANIFEST.schema.json"))
    jsonschema.validate(m, s)
    print("setup: MANIFEST.json valid, %d checks" % len(m["checks"]))
except FileNotFoundError as e:
    print("setup: schema not found, skipping validation (%s)" % e)
except Exception as e:
    print("setup: MANIFEST.json INVALID: %s" % e); sys.exit(1)
PY
