"""Regenerates MANIFEST.json from the per-property table below (keeps it valid at all times)."""
import json, os
HERE = os.path.dirname(os.path.abspath(__file__))

CHECKS = {
 "C01": dict(
   text="Hypothesis search (thousands of spectra/grids per run) comparing the closed-form zero-point, thermal and total contributions with a numerically differentiated reference free energy (80-bit finite differences, own CODATA constants), separately per clause; mpmath 40-digit cross-check of the reference on a sample.",
   note="Trusts the reference free-energy model (vcij/refphys.py) and the duck-typed calculator surface (vcij/duck.py); tolerance 1e-7 of the summed per-mode magnitudes (+3e-9 per unit of hw/kT for CODATA revisions).",
   technique="Hypothesis property-based differential test against a numerically differentiated reference model", design="4/C01"),
 "C02": dict(
   text="Hypothesis search comparing adiabatic-isothermal gaps with T V (dP/dT)^2/(9 e_i e_j C_V) from the mixed numerical derivative of the reference free energy, sign and T=0 clauses, and bitwise equality of adiabatic and isothermal shear values through the task list.",
   note="Trusts vcij/refphys.py; heat capacity is an arbitrary positive field handed in through the duck calculator.",
   technique="Hypothesis property-based differential test (reference mixed derivative) + invariant on the task list", design="4/C02"),
 "C03": dict(
   text="Complete enumeration of the linear map on a basis (15 shear keys x 21 basis tensors: decides all tensors by linearity) plus Hypothesis-drawn random tensors and strain triples; frame, requested-key and rotated-strain validity predicates.",
   note="Any orthonormal eigenbasis is accepted as the rotated frame; reference rotation by einsum in vcij/reftensor.py.",
   technique="exhaustive basis enumeration + Hypothesis against reference tensor algebra (validity predicates)", design="4/C03"),
 "C04": dict(
   text="Hypothesis search over subsets/orders of the 21 keys, strain-field classes and axis permutations with metamorphic oracles (alone vs in company, reversed order, relabelled axes, isotropic limit), dependency-order check, node budget, and a rule-based state machine over resolve/calculate histories.",
   note="Strain fractions lie on a rational grid so that tasks are either identical or well separated (the scheduler merges parameters equal to 1e-5 by design).",
   technique="Hypothesis metamorphic tests + rule-based state machine (histories)", design="4/C04"),
 "C05": dict(
   text="Hypothesis search over synthetic data sets and settings; the whole result (static part, strain fractions, static pressure, every isothermal/adiabatic component incl. all shear keys) is recomputed from the data-set description by an independent reference model and compared on the full (T,V) grid; metamorphic shift/scale of the static table.",
   note="Spectra are chosen so that the configured interpolant is exact (no interpolation code in the reference); QHA's P(T,V) and C_V are observed; adaptive tolerance where the code differentiates numerically.",
   technique="Hypothesis differential test against an end-to-end reference model + metamorphic relations", design="4/C05"),
 "C06": dict(
   text="Hypothesis search: every pressure-base quantity at every (T,P) is compared with an independent re-interpolation of the volume-base quantity along the isotherm (cubic spline, adaptive tolerance), analytic test fields through the public v2p, V(T,P) inversion and monotonicity, and rejection of overshooting pressure grids placed far from the boundary.",
   note="QHA's pressure field is trusted; the reachable range is taken from the qha package run directly on the same arrays.",
   technique="Hypothesis differential/metamorphic test (independent interpolation, analytic fields, rejection oracle)", design="4/C06"),
 "C07": dict(
   text="Hypothesis search over positive-definite tensor fields of all nine systems and cell masses; Voigt/Reuss/Hill, bounds, compliances and velocities are recomputed from the rank-4 tensor (Mandel inverse) with own SI constants at every positive-definite grid point.",
   note="Reference is independent of Voigt factor conventions; PD decided by own eigvalsh; tolerance 1e-7 relative.",
   technique="Hypothesis differential test against reference tensor algebra", design="4/C07"),
 "C11": dict(
   text="Hypothesis search per method (stratified over shards) x admissible orders x table families: internal consistency of the returned triple by central differences at harness-chosen probes inside and beyond the sampled range, exactness on power-law data (and polynomial data for least squares), Gamma-acoustic zeros, (q,m) permutation equivariance and single-mode agreement; recording-axes check of the diagnostic plot for n=0,1,2 on real Calculator objects.",
   note="Finite-difference tolerance from two step sizes; exactness tolerance for the monomial-basis methods scales with the condition number of their Vandermonde system; open finding method=hermite excluded and counted.",
   technique="Hypothesis property-based test (finite-difference consistency, exactness and metamorphic oracles)", design="4/C11"),
 "C12": dict(
   text="Hypothesis sweep of the documented configuration space (7 interpolators x admissible orders, 9 systems, T grids down to 0.5 K and denormal T_MIN, optional sampling keys present/absent, BM order 3-5) on well-formed data sets; validity predicates: completes, real dtype, finite (isothermal everywhere; adiabatic where C_V>0; derived where PD), c(T)->c(0).",
   note="Well-formedness (monotonic pressure, requested pressures inside the range) decided with the qha package directly; open finding interpolator=hermite excluded and counted.",
   technique="Hypothesis configuration sweep with validity predicates (crash/NaN/complex detection)", design="4/C12"),
 "C08": dict(
   text="Subspace equality Sol = W decided completely for all nine systems (every basis vector of the Laue-invariant subspace accepted unchanged, a minimal sufficient set accepted, complement vectors refused, own parse of the relation files), plus Hypothesis search over sufficient subsets around the matroid boundary and row counts.",
   note="Invariant subspaces computed from rotation generators in the standard setting (vcij/reflaue.py); nothing reads the packaged relations except the explicit white-box cross-check.",
   technique="complete basis enumeration + Hypothesis against an independently computed invariant subspace", design="4/C08"),
 "C09": dict(
   text="Hypothesis search over systems x subsets near the sufficiency boundary x consistent/perturbed values x the four options x presentations (order, case, dtype, extra columns) x environments (cwd contents, relation-file paths); oracle: refuse <=> (insufficient and not ignore_rank) or (inconsistent and not ignore_residuals), acceptance clauses, outcome identical across presentations; cij fill through click's runner.",
   note="Sufficiency by an independent rank computation; perturbations are placed a factor >=100 away from the residual threshold; 'never distorts' clauses asserted for consistent tables only.",
   technique="Hypothesis property-based test with reference rank/consistency oracle + metamorphic presentation/environment relations", design="4/C09"),
 "C10": dict(
   text="Complete enumeration of the finite domain (81 tuples, 81x81 equality pairs, 36 Voigt pairs, all str/int spellings, strain indices, out-of-range shell) against an own canonicaliser, plus Hypothesis over arbitrary digit strings; exhaustive for the stated domain.",
   note="Trusts only the reference canonicaliser written from the property text; 'rejected' = any exception.",
   technique="exhaustive enumeration of a finite domain + Hypothesis differential test vs reference canonicaliser",
   design="4/C10"),
 "C13": dict(
   text="Hypothesis metamorphic search: each drawn data set is run twice, as written and re-presented (q-point order with weights, mode order, weight scale, static column order/case/prefix, static row order, phonon volume-block order); tensors and pressure-base quantities must agree to 1e-8 of the tensor scale; for re-ordered volume blocks equality or an error.",
   note="Data sets synthetic (as C05) ; shipped examples are not used in the quick tier.",
   technique="Hypothesis metamorphic test (re-presentation invariance)", design="4/C13"),
 "C14": dict(
   text="Rule-based state machine over two data sets (construct/read/read-twice/write in any interleaving) whose every observation is compared bitwise with the result of a pristine process forked before any calculation ran; subprocess `cij run` under stratified PYTHONHASHSEED values and working-directory contents compared bytewise with a clean run; fill(fill(t)) = fill(t).",
   note="Single-threaded BLAS; hash seeds, histories and cwd contents are sampled. A history that fails once but not when re-run in the same process is reported as state surviving between histories.",
   technique="Hypothesis rule-based state machine with a pristine-process reference model + subprocess differential runs", design="4/C14"),
 "C15": dict(
   text="Hypothesis search over output sections (keywords, aliases, string/dict form, file-name and unit overrides, both bases) plus a complete enumeration of the documented keyword/alias table on both bases; files are re-read with an own parser: names, row/column labels, values x own unit factors, alias byte-identity, exactly the expected file set.",
   note="Keyword table hard-coded from the documentation; QHA's table layout parsed by vcij/tables.py.",
   technique="Hypothesis round-trip test (write, re-read with own parser, compare with in-memory results) + finite keyword enumeration", design="4/C15"),
 "C16": dict(
   text="Hypothesis search over pairs of nested dictionaries (key alphabet chosen so that keys collide at every depth) against a reference merge: user leaves kept, union of keys, inputs unmodified, idempotent; apply_default_config against an own load of the packaged defaults; JSON/.yml/.yaml round trips; configurations built from the documented field table accepted and every single-field perturbation rejected; complete enumeration field x perturbation kind; shipped files.",
   note="Nothing is asserted where the schema is silent (DT<=0, unknown keys in qha.settings, 3.0 for an integer).",
   technique="Hypothesis differential test vs reference merge + grammar-based valid/invalid configuration generation + finite field enumeration", design="4/C16"),
 "C17": dict(
   text="Hypothesis round trips: write_energy -> read_energy on arbitrary data sets (counts, signs, magnitudes to 1e5); own writer for static tables (key spellings, order, lattice block, trailing blanks) -> read_elast_data exact; `cij fill` stdout re-parsed and compared with the own symmetric completion for all nine systems (header/lattice text preserved).",
   note="Written precision 6/4 decimals; pandas to_string precision for the command.",
   technique="Hypothesis round-trip tests with own writers/parsers and a reference completion", design="4/C17"),
 "C18": dict(
   text="Hypothesis search over static data sets x modes none/volume/pressure x grid sizes 11-401 x options (-s, --cellmass, --delta-p-sample, with/without table): stdout table parsed and compared column by column with an own second-order finite-strain fit (F at the reported V, P=-dF/dV), own fits of the symmetry-completed table, VRH/velocities recomputed from the printed row, units, requested pressure rows.",
   note="Adaptive tolerance where the command differentiates/interpolates numerically (error scale from the command's own grid size); printed precision 6 decimals.",
   technique="Hypothesis differential test against an own EoS/elasticity reference on parsed command output", design="4/C18"),
 "C19": dict(
   text="Hypothesis search: tables written with qha's own writer from smooth g(T,P); `cij extract` must return exactly the nearest row/column labelled by the other coordinate for any request not within 1 % of a half-way point; `cij extract-geotherm` returns table entries at nodes, passes the geotherm's own columns through, and its error against g at least halves when the grid is refined.",
   note="Printed precision of pandas to_string; convergence clause err(2n-1) <= err(n)/2 + print precision.",
   technique="Hypothesis differential test (nearest-node oracle, analytic function + refinement metamorphic relation)", design="4/C19"),
 "C20": dict(
   text="Hypothesis search with planted structure: permutation + phases + bounded perturbation of real/complex unitary bases (unique assignment by construction) for the sort; planted unit eigenvectors behind arbitrary masses and row scales for the conversion; own writer in QE matdyn formats for the loader (exact printed values); dimension mismatches rejected.",
   note="matdyn layout taken from QE's Fortran formats / the shipped test data; |component| <= 1 as in eigenvector files.",
   technique="Hypothesis planted-solution tests + round trip through an own file writer", design="4/C20"),
}
NOT_APPLICABLE = {}

def main():
    props = [json.loads(l) for l in open(os.path.join(HERE, "properties.jsonl"))]
    ids = [p["id"] for p in props]
    checks = []
    for pid in ids:
        if pid not in CHECKS:
            continue
        c = CHECKS[pid]
        checks.append({
            "property_id": pid,
            "quick_cmd": "./check %s --tier quick" % pid,
            "thorough_cmd": "./check %s --tier thorough" % pid,
            "evidence_file": "/verif/evidence/%s.json" % pid,
            "replay_cmd_template": "./check %s --replay {path}" % pid,
            "engine": "vcij",
            "level_claimed": {"category": c.get("category", "exploration"), "text": c["text"], "design_ref": "DESIGN.md section " + c["design"]},
            "level_note": c["note"],
            "technique": c["technique"],
        })
    na = [{"property_id": pid, "reason": NOT_APPLICABLE.get(pid, "check not built yet in this round (work in progress); see DESIGN.md section 4")}
          for pid in ids if pid not in CHECKS]
    m = {
        "version": 1,
        "setup_cmd": "./setup.sh",
        "hooks": {"guard": "CIJ_VERIF", "enable": "no hooks are needed: checks import cij from /repo's working tree (VERIF_REPO overrides the path)",
                  "baseline_off_cmd": "cd /repo && /venv/bin/python -m pytest -ra -q -p no:cacheprovider --timeout=900 --continue-on-collection-errors",
                  "source_commits": [], "add_only": True},
        "engines": [{"name": "vcij", "path": "/verif/vcij", "serves_properties": [c["property_id"] for c in checks],
                     "kind_free_text": "Hypothesis property-based tests / rule-based state machines, exhaustive enumeration of finite domains, atheris fuzz targets; explicit reference oracles in vcij/ref*.py"}],
        "checks": checks,
        "not_applicable": na,
        "notes": "All checks: exit 0 held, exit 1 + VIOLATION line, exit 2 harness error. Known findings: /verif/known_findings.json.",
    }
    with open(os.path.join(HERE, "MANIFEST.json"), "w") as fp:
        json.dump(m, fp, indent=1)
        fp.write("\n")

if __name__ == "__main__":
    main()
