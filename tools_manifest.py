"""Regenerates MANIFEST.json from the per-property table below (keeps it valid at all times)."""
import json, os
HERE = os.path.dirname(os.path.abspath(__file__))

CHECKS = {
 "C10": dict(
   text="Complete enumeration of the finite domain (81 tuples, 81x81 equality pairs, 36 Voigt pairs, all str/int spellings, strain indices, out-of-range shell) against an own canonicaliser, plus Hypothesis over arbitrary digit strings; exhaustive for the stated domain.",
   note="Trusts only the reference canonicaliser written from the property text; 'rejected' = any exception.",
   technique="exhaustive enumeration of a finite domain + Hypothesis differential test vs reference canonicaliser",
   design="4/C10"),
}
NOT_APPLICABLE = {}

def main():
    props = [json.loads(l) for l in open(os.path.join(HERE, "properties.jsonl"))]
    ids = [p["id"] for p in props]
    checks = []
    for pid in ids:
        if pid not in CHECKS:
            continue
        c = CHECKS[pid]
        checks.append({
            "property_id": pid,
            "quick_cmd": "./check %s --tier quick" % pid,
            "thorough_cmd": "./check %s --tier thorough" % pid,
            "evidence_file": "/verif/evidence/%s.json" % pid,
            "replay_cmd_template": "./check %s --replay {path}" % pid,
            "engine": "vcij",
            "level_claimed": {"category": c.get("category", "exploration"), "text": c["text"], "design_ref": "DESIGN.md section " + c["design"]},
            "level_note": c["note"],
            "technique": c["technique"],
        })
    na = [{"property_id": pid, "reason": NOT_APPLICABLE.get(pid, "check not built yet in this round (work in progress); see DESIGN.md section 4")}
          for pid in ids if pid not in CHECKS]
    m = {
        "version": 1,
        "setup_cmd": "./setup.sh",
        "hooks": {"guard": "CIJ_VERIF", "enable": "no hooks are needed: checks import cij from /repo's working tree (VERIF_REPO overrides the path)",
                  "baseline_off_cmd": "cd /repo && /venv/bin/python -m pytest -ra -q -p no:cacheprovider --timeout=900 --continue-on-collection-errors",
                  "source_commits": [], "add_only": True},
        "engines": [{"name": "vcij", "path": "/verif/vcij", "serves_properties": [c["property_id"] for c in checks],
                     "kind_free_text": "Hypothesis property-based tests / rule-based state machines, exhaustive enumeration of finite domains, atheris fuzz targets; explicit reference oracles in vcij/ref*.py"}],
        "checks": checks,
        "not_applicable": na,
        "notes": "All checks: exit 0 held, exit 1 + VIOLATION line, exit 2 harness error. Known findings: /verif/known_findings.json.",
    }
    with open(os.path.join(HERE, "MANIFEST.json"), "w") as fp:
        json.dump(m, fp, indent=1)
        fp.write("\n")

if __name__ == "__main__":
    main()
