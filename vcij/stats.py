"""Counters for evidence: evaluations, class histogram, distinct non-trivial cases, samples."""
import hashlib
import json
from collections import Counter


def jsonable(x):
    """Best-effort conversion of numpy scalars/arrays and tuples into plain JSON values."""
    try:
        import numpy
    except Exception:  # pragma: no cover
        numpy = None
    if isinstance(x, dict):
        return {str(k): jsonable(v) for k, v in x.items()}
    if isinstance(x, (list, tuple)):
        return [jsonable(v) for v in x]
    if isinstance(x, (set, frozenset)):
        return sorted(jsonable(v) for v in x)
    if numpy is not None:
        if isinstance(x, numpy.ndarray):
            return jsonable(x.tolist())
        if isinstance(x, numpy.generic):
            return jsonable(x.item())
    if isinstance(x, complex):
        return {"re": x.real, "im": x.imag}
    if isinstance(x, float):
        if x != x:
            return "nan"
        if x in (float("inf"), float("-inf")):
            return "inf" if x > 0 else "-inf"
        return x
    if isinstance(x, (str, int, bool)) or x is None:
        return x
    return repr(x)


def case_hash(case):
    return hashlib.sha1(json.dumps(jsonable(case), sort_keys=True).encode()).hexdigest()[:16]


class Stats:
    MAX_SAMPLES = 6

    def __init__(self):
        self.evaluations = 0
        self.classes = Counter()
        self.nontrivial = set()
        self.samples = []
        self.excluded = Counter()
        self.sub = Counter()

    def case(self, case, nontrivial, classes=(), sub=None, key=None):
        """Record one oracle execution.  `case` is a small JSON-able description; `key`
        (default: the case itself) is what distinctness is measured on."""
        self.evaluations += 1
        if sub:
            self.sub[sub] += 1
        for c in classes:
            self.classes[c] += 1
        if nontrivial:
            h = case_hash(case if key is None else key)
            if h not in self.nontrivial:
                self.nontrivial.add(h)
                if len(self.samples) < self.MAX_SAMPLES:
                    s = jsonable(case)
                    if sub and isinstance(s, dict):
                        s = dict(s, _subcheck=sub)
                    self.samples.append(s)

    def skip(self, bucket):
        self.excluded[bucket] += 1

    def dump(self):
        return {
            "evaluations": self.evaluations,
            "classes": dict(self.classes),
            "nontrivial": sorted(self.nontrivial),
            "samples": self.samples,
            "excluded": dict(self.excluded),
            "sub": dict(self.sub),
        }

    @classmethod
    def merge(cls, dumps):
        s = cls()
        for d in dumps:
            s.evaluations += d["evaluations"]
            s.classes.update(d["classes"])
            s.nontrivial.update(d["nontrivial"])
            s.excluded.update(d["excluded"])
            s.sub.update(d["sub"])
        # interleave samples of shards so that several subchecks are visible
        pools = [list(d["samples"]) for d in dumps]
        seen_sub = set()
        rest = []
        for p in pools:
            for smp in p:
                k = smp.get("_subcheck") if isinstance(smp, dict) else None
                if k not in seen_sub:
                    seen_sub.add(k)
                    s.samples.append(smp)
                else:
                    rest.append(smp)
        for smp in rest:
            if len(s.samples) >= 2 * cls.MAX_SAMPLES:
                break
            s.samples.append(smp)
        s.samples = s.samples[: 2 * cls.MAX_SAMPLES]
        return s
