"""atheris driver (fresh process): coverage-guided fuzzing of one Hypothesis-based target through
`fuzz_one_input`, with the code under test instrumented at import time.

  python -m vcij.fuzz.driver PROP TARGET RUNS SEED ARTIFACT_DIR [MAX_TOTAL_TIME]

The semantic oracle is inside the target (the same body the Hypothesis check uses); a failing input is written by
libFuzzer to ARTIFACT_DIR/crash-* and replayed by the parent, which turns it into a PropertyViolation.
"""
import os
import sys


def main():
    prop, target, runs, seed, art = sys.argv[1:6]
    max_time = sys.argv[6] if len(sys.argv) > 6 else "0"
    import atheris
    import vcij  # puts the repository under test first on sys.path
    with atheris.instrument_imports(include=["cij"]):
        import cij  # noqa
        import cij.util  # noqa
        import cij.util.voigt  # noqa
        import cij.io.config  # noqa
        import cij.io.traditional  # noqa
        import cij.misc.evec_load  # noqa
    vcij.import_cij()
    from vcij.runner import Ctx, load_module
    from hypothesis import HealthCheck, given, settings
    mod = load_module(prop)
    ctx = Ctx(prop, "thorough", int(seed))
    ctx.sub = "fuzz:" + target
    body, strategies = mod.fuzz_targets(ctx)[target]
    test = settings(database=None, deadline=None, suppress_health_check=list(HealthCheck))(given(*strategies)(body))
    fuzz_one = test.hypothesis.fuzz_one_input
    os.makedirs(art, exist_ok=True)
    corpus = os.path.join(art, "corpus")
    os.makedirs(corpus, exist_ok=True)
    argv = [sys.argv[0], "-runs=%s" % runs, "-seed=%s" % (int(seed) or 1), "-artifact_prefix=%s/" % art, "-max_len=4096",
            "-max_total_time=%s" % max_time, "-print_final_stats=1", corpus]

    def one(data):
        fuzz_one(data)

    atheris.Setup(argv, one)
    atheris.Fuzz()


if __name__ == "__main__":
    main()
