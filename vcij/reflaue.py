"""Laue-class invariants of the elastic tensor (oracle for C08 C09 C17 C05 C12).

Generators of the nine groups in the standard setting (principal axis z, two-fold axis x where present,
unique axis y for monoclinic), their 21x21 action on Voigt coordinates, the invariant subspace W as the
null space of the stacked (M_g - I), the Reynolds projector and the sufficiency oracle.
Nothing here reads cij/data/constraints/*.
"""
import functools
import itertools

import numpy as np

from .reftensor import KEYS21, keys_from_tensor, rotate, tensor_from_keys

SYSTEMS = ["triclinic", "monoclinic", "orthorhombic", "tetragonal7", "tetragonal6",
           "trigonal7", "trigonal6", "hexagonal", "cubic"]
EXPECTED_DIM = {"triclinic": 21, "monoclinic": 13, "orthorhombic": 9, "tetragonal7": 7, "tetragonal6": 6,
                "trigonal7": 7, "trigonal6": 6, "hexagonal": 5, "cubic": 3}


def rot(axis, angle):
    axis = np.asarray(axis, dtype=float)
    axis = axis / np.linalg.norm(axis)
    x, y, z = axis
    c, s = np.cos(angle), np.sin(angle)
    C = 1 - c
    return np.array([[c + x * x * C, x * y * C - z * s, x * z * C + y * s],
                     [y * x * C + z * s, c + y * y * C, y * z * C - x * s],
                     [z * x * C - y * s, z * y * C + x * s, c + z * z * C]])


X, Y, Z = (1, 0, 0), (0, 1, 0), (0, 0, 1)
PI = np.pi
GENERATORS = {
    "triclinic": [np.eye(3)],
    "monoclinic": [rot(Y, PI)],
    "orthorhombic": [rot(X, PI), rot(Y, PI)],
    "tetragonal7": [rot(Z, PI / 2)],
    "tetragonal6": [rot(Z, PI / 2), rot(X, PI)],
    "trigonal7": [rot(Z, 2 * PI / 3)],
    "trigonal6": [rot(Z, 2 * PI / 3), rot(X, PI)],
    "hexagonal": [rot(Z, PI / 3), rot(X, PI)],
    "cubic": [rot(Z, PI / 2), rot((1, 1, 1), 2 * PI / 3)],
}


def action(R):
    """21x21 matrix of C -> rotate(C, R) in canonical Voigt coordinates (plain tensor components)."""
    M = np.zeros((21, 21))
    for n, k in enumerate(KEYS21):
        C = tensor_from_keys({k: 1.0})
        Cr = keys_from_tensor(rotate(C, R))
        for m, k2 in enumerate(KEYS21):
            M[m, n] = Cr[k2]
    return M


@functools.lru_cache(maxsize=None)
def group_elements(system):
    gens = GENERATORS[system]
    elems = [np.eye(3)]
    frontier = [np.eye(3)]
    while frontier:
        new = []
        for g in frontier:
            for h in gens:
                c = g @ h
                if not any(np.allclose(c, e, atol=1e-9) for e in elems):
                    elems.append(c)
                    new.append(c)
        frontier = new
        if len(elems) > 48:
            raise AssertionError("group closure failed")
    return elems


@functools.lru_cache(maxsize=None)
def invariant_basis(system):
    """Orthonormal basis B (21 x dim) of the invariant subspace W and of its complement (21 x (21-dim))."""
    stack = np.concatenate([action(R) - np.eye(21) for R in GENERATORS[system]], axis=0)
    u, s, vt = np.linalg.svd(stack)
    s_full = np.concatenate([s, np.zeros(21 - len(s))])
    null = s_full < 1e-10
    # gap check
    if np.any((s_full >= 1e-10) & (s_full < 1e-6)):
        raise AssertionError("no clean singular-value gap for %s" % system)
    B = vt[null].T.copy()
    Bperp = vt[~null].T.copy()
    B[np.abs(B) < 1e-13] = 0.0
    Bperp[np.abs(Bperp) < 1e-13] = 0.0
    if B.shape[1] != EXPECTED_DIM[system]:
        raise AssertionError("dimension of invariants for %s is %d" % (system, B.shape[1]))
    return B, Bperp


@functools.lru_cache(maxsize=None)
def projector(system):
    """Reynolds projector onto W (average of the group action): an (in general oblique) projector whose
    range is W.  Cross-checks the SVD basis: P B = B, P P = P, rank P = dim W."""
    P = sum(action(R) for R in group_elements(system)) / len(group_elements(system))
    B, _ = invariant_basis(system)
    if (np.max(np.abs(P @ B - B)) > 1e-9 or np.max(np.abs(P @ P - P)) > 1e-9
            or np.linalg.matrix_rank(P, tol=1e-9) != B.shape[1]):
        raise AssertionError("Reynolds projector and SVD basis disagree for %s" % system)
    return P


def index_of(keys):
    return [KEYS21.index(k) for k in keys]


def is_sufficient(system, keys):
    """Do the supplied components (list of canonical (I,J)) determine the invariant tensor?"""
    B, _ = invariant_basis(system)
    if not keys:
        return B.shape[1] == 0
    sub = B[index_of(keys), :]
    s = np.linalg.svd(sub, compute_uv=False)
    rank = int(np.sum(s > 1e-9))
    return rank == B.shape[1]


def complete(system, keys, values):
    """Own symmetric completion: the w in W whose supplied coordinates best match `values`
    (values: (nrows, len(keys))).  Returns (w (nrows,21), squared distance per row)."""
    B, _ = invariant_basis(system)
    idx = index_of(keys)
    A = B[idx, :]
    # pseudo-inverse with an ABSOLUTE singular-value cut-off (rows of B that vanish up to rounding must not be fitted)
    u, sv, vt = np.linalg.svd(A, full_matrices=False)
    inv = np.where(sv > 1e-9, 1.0 / np.where(sv > 1e-9, sv, 1.0), 0.0)
    coef = (vt.T * inv) @ (u.T @ np.asarray(values, dtype=float).T)
    w = (B @ coef).T
    d2 = np.sum((w[:, idx] - np.asarray(values, dtype=float)) ** 2, axis=1)
    return w, d2


def nonzero_pattern(system, tol=1e-9):
    """Which of the 21 components can be non-zero in W."""
    B, _ = invariant_basis(system)
    return [k for k, row in zip(KEYS21, B) if np.max(np.abs(row)) > tol]


def minimal_sufficient_sets(system, rng, n=1):
    """Random minimal sufficient subsets (greedy matroid basis over a shuffled order)."""
    B, _ = invariant_basis(system)
    out = []
    for _ in range(n):
        order = list(rng.permutation(21))
        chosen = []
        rank = 0
        for i in order:
            trial = chosen + [i]
            r = int(np.sum(np.linalg.svd(B[trial, :], compute_uv=False) > 1e-9))
            if r > rank:
                chosen, rank = trial, r
            if rank == B.shape[1]:
                break
        out.append([KEYS21[i] for i in chosen])
    return out
