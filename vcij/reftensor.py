"""Reference tensor algebra (oracle for C03 C05 C07 C18): own 21-key <-> 3x3x3x3 mapping written from the
minor/major symmetries, rotation by einsum, VRH averages from the rank-4 tensor via the Mandel matrix.
Nothing here imports cij."""
import itertools

import numpy as np

PAIR_OF_VOIGT = {1: (1, 1), 2: (2, 2), 3: (3, 3), 4: (2, 3), 5: (1, 3), 6: (1, 2)}
VOIGT_OF_PAIR = {}
for _v, (_i, _j) in PAIR_OF_VOIGT.items():
    VOIGT_OF_PAIR[(_i, _j)] = _v
    VOIGT_OF_PAIR[(_j, _i)] = _v

KEYS21 = [(I, J) for I in range(1, 7) for J in range(I, 7)]          # canonical Voigt pairs
NONSHEAR = [(1, 1), (2, 2), (3, 3), (1, 2), (1, 3), (2, 3)]
SHEAR15 = [k for k in KEYS21 if k[1] >= 4]


def canon(i, j, k, l):
    a, b = VOIGT_OF_PAIR[(i, j)], VOIGT_OF_PAIR[(k, l)]
    return (a, b) if a <= b else (b, a)


def tensor_from_keys(d, shape=()):
    """d: {(I,J) canonical: array of `shape`} -> C[..., 3,3,3,3] with all minor and major symmetries."""
    C = np.zeros(tuple(shape) + (3, 3, 3, 3))
    for i, j, k, l in itertools.product(range(3), repeat=4):
        key = canon(i + 1, j + 1, k + 1, l + 1)
        if key in d:
            C[..., i, j, k, l] = d[key]
    return C


def keys_from_tensor(C):
    out = {}
    for (I, J) in KEYS21:
        (i, j), (k, l) = PAIR_OF_VOIGT[I], PAIR_OF_VOIGT[J]
        out[(I, J)] = C[..., i - 1, j - 1, k - 1, l - 1]
    return out


def rotate(C, T):
    """C'_{ijkl} = T_ai T_bj T_ck T_dl C_abcd   (columns of T are the new basis vectors)."""
    return np.einsum("ai,bj,ck,dl,...abcd->...ijkl", T, T, T, T, C)


def mandel(C):
    """6x6 Mandel matrix of a rank-4 tensor (independent of Voigt factor conventions)."""
    M = np.zeros(C.shape[:-4] + (6, 6))
    f = [1, 1, 1, np.sqrt(2), np.sqrt(2), np.sqrt(2)]
    for I in range(6):
        i, j = PAIR_OF_VOIGT[I + 1]
        for J in range(6):
            k, l = PAIR_OF_VOIGT[J + 1]
            M[..., I, J] = C[..., i - 1, j - 1, k - 1, l - 1] * f[I] * f[J]
    return M


def tensor_from_mandel(M):
    C = np.zeros(M.shape[:-2] + (3, 3, 3, 3))
    f = [1, 1, 1, np.sqrt(2), np.sqrt(2), np.sqrt(2)]
    for i, j, k, l in itertools.product(range(3), repeat=4):
        I = VOIGT_OF_PAIR[(i + 1, j + 1)] - 1
        J = VOIGT_OF_PAIR[(k + 1, l + 1)] - 1
        C[..., i, j, k, l] = M[..., I, J] / (f[I] * f[J])
    return C


def compliance_tensor(C):
    return tensor_from_mandel(np.linalg.inv(mandel(C)))


def voigt_compliance_from_tensor(S):
    """Engineering (Voigt) compliances s_IJ = s_ijkl * (1,2,4) as conventionally reported."""
    out = {}
    for (I, J) in KEYS21:
        (i, j), (k, l) = PAIR_OF_VOIGT[I], PAIR_OF_VOIGT[J]
        fac = (2 if I > 3 else 1) * (2 if J > 3 else 1)
        out[(I, J)] = S[..., i - 1, j - 1, k - 1, l - 1] * fac
    return out


def vrh(C):
    """Voigt/Reuss/Hill bulk and shear moduli from the rank-4 stiffness."""
    S = compliance_tensor(C)
    Ciijj = np.einsum("...iijj->...", C)
    Cijij = np.einsum("...ijij->...", C)
    Siijj = np.einsum("...iijj->...", S)
    Sijij = np.einsum("...ijij->...", S)
    KV = Ciijj / 9
    GV = (3 * Cijij - Ciijj) / 30
    KR = 1 / Siijj
    GR = 15 / (6 * Sijij - 2 * Siijj)
    return {"KV": KV, "GV": GV, "KR": KR, "GR": GR, "K": (KV + KR) / 2, "G": (GV + GR) / 2}


def is_positive_definite(C):
    w = np.linalg.eigvalsh(mandel(C))
    return np.all(w > 0, axis=-1)
