"""Reference model of the vibrational free energy and its derivatives (oracle for C01 C02 C05 C12).

F_ph(T,V) = sum_q w~_q sum_m [ h c nu/2 + k_B T log1p(-exp(-h c nu / k_B T)) ]   (Rydberg, nu in cm^-1)

The spectrum at grid volume V_k is continued locally as
    ln nu(V) = ln nu_k - gamma_k x - g_k x^2/2,   x = ln(V / V_k),
which has exactly the prescribed (nu_k, gamma_k = -dln nu/dln V, g_k = dgamma/dln V = V dgamma/dV).
All volume and temperature derivatives are taken by central finite differences in numpy.longdouble
with per-mode adaptive steps; no closed-form Bose factor of the code under test is used.
Constants are typed in from CODATA 2018 (not taken from pint or scipy).
"""
import numpy as np

LD = np.longdouble

# CODATA 2018 (h, c, k_B, e, N_A exact by definition)
H_SI = 6.62607015e-34          # J s
C_SI = 299792458.0             # m / s
KB_SI = 1.380649e-23           # J / K
E_SI = 1.602176634e-19         # C
NA = 6.02214076e23             # 1 / mol
RY_J = 2.1798723611035e-18     # J        Rydberg energy
A0_M = 5.29177210903e-11       # m        Bohr radius

HC_RY_CM = H_SI * C_SI * 100.0 / RY_J     # Ry cm      (energy of 1 cm^-1)
KB_RY = KB_SI / RY_J                      # Ry / K
GPA_TO_AU = 1e9 * A0_M ** 3 / RY_J        # (Ry/bohr^3) per GPa
AU_TO_GPA = 1.0 / GPA_TO_AU
BOHR3_TO_ANG3 = (A0_M * 1e10) ** 3
RY_TO_EV = RY_J / E_SI

# central-difference stencils
C1_7 = np.array([-1 / 60, 3 / 20, -3 / 4, 0, 3 / 4, -3 / 20, 1 / 60], dtype=LD)
C2_7 = np.array([1 / 90, -3 / 20, 3 / 2, -49 / 18, 3 / 2, -3 / 20, 1 / 90], dtype=LD)
J7 = np.arange(-3, 4).astype(LD)
C1_5 = np.array([1 / 12, -2 / 3, 0, 2 / 3, -1 / 12], dtype=LD)
J5 = np.arange(-2, 3).astype(LD)
# exact rational stencils
C1_7 = np.array([LD(-1) / 60, LD(3) / 20, LD(-3) / 4, LD(0), LD(3) / 4, LD(-3) / 20, LD(1) / 60])
C2_7 = np.array([LD(1) / 90, LD(-3) / 20, LD(3) / 2, LD(-49) / 18, LD(3) / 2, LD(-3) / 20, LD(1) / 90])
C1_5 = np.array([LD(1) / 12, LD(-2) / 3, LD(0), LD(2) / 3, LD(-1) / 12])


def _mask(nq, npm):
    m = np.ones((nq, npm), dtype=bool)
    m[0, :3] = False
    return m


def _sum_modes(x, wn, mask):
    """x[..., nq, np] -> sum_q wn_q sum_m x (masked)."""
    return np.sum(np.where(mask, x, LD(0)) * wn[:, None], axis=(-2, -1))


def free_energy_derivs(nu, gam, g, weights, T, V, want_mixed=True):
    """nu, gam, g: (ntv, nq, np) float arrays given at the grid volumes V (ntv,);
    weights (nq,) positive; T (nt,) >= 0.

    Returns a dict of float64 arrays:
      P_zp, A_zp (ntv,)      P_th, A_th (nt, ntv)     dPdT (nt, ntv)
      and *_abs companions = the same sums with |per-mode term| (scale for tolerances).
    with P = -dF/dV, A = V d2F/dV2 - P  (per cell, Rydberg atomic units, V in bohr^3).
    """
    with np.errstate(all="ignore"):
        return _free_energy_derivs(nu, gam, g, weights, T, V, want_mixed)


def _free_energy_derivs(nu, gam, g, weights, T, V, want_mixed):
    nu = np.asarray(nu, dtype=LD)
    gam = np.asarray(gam, dtype=LD)
    g = np.asarray(g, dtype=LD)
    T = np.asarray(T, dtype=LD)
    V = np.asarray(V, dtype=LD)
    w = np.asarray(weights, dtype=LD)
    wn = w / np.sum(w)
    ntv, nq, npm = nu.shape
    nt = T.shape[0]
    mask = _mask(nq, npm)
    # make masked slots harmless
    nu = np.where(mask, nu, LD(100))
    gam = np.where(mask, gam, LD(1))
    g = np.where(mask, g, LD(0))
    Vk = V[:, None, None]

    out = {}
    # ---------------- zero point ----------------------------------------------------------------
    h = LD(2e-3)
    x = np.log1p(J7 * h)[:, None, None, None]                    # (7,1,1,1)
    Fz = LD(HC_RY_CM) / 2 * nu * np.exp(-gam * x - g * x * x / 2)  # (7,ntv,nq,np)
    d1 = np.tensordot(C1_7, Fz, axes=(0, 0)) / (h * Vk)
    d2 = np.tensordot(C2_7, Fz, axes=(0, 0)) / (h * Vk) ** 2
    Pm = -d1
    Am = Vk * d2 - Pm
    out["P_zp"] = _sum_modes(Pm, wn, mask)
    out["A_zp"] = _sum_modes(Am, wn, mask)
    out["P_zp_abs"] = _sum_modes(np.abs(d1), wn, mask)
    out["A_zp_abs"] = _sum_modes(np.abs(Vk * d2) + np.abs(d1), wn, mask)

    # ---------------- thermal ---------------------------------------------------------------------
    Tpos = np.where(T > 0, T, LD(1))[:, None, None, None]        # (nt,1,1,1)
    kT = LD(KB_RY) * Tpos
    Q0 = LD(HC_RY_CM) * nu[None] / kT                            # (nt,ntv,nq,np)
    gg = np.abs(gam)[None] + 1
    hv = np.minimum(LD(2e-3), LD(0.05) / (Q0 * gg))
    hv = np.minimum(hv, np.sqrt(LD(0.1) / (Q0 * (np.abs(g)[None] + 1))))
    xs = np.log1p(J7[:, None, None, None, None] * hv[None])     # (7,nt,ntv,nq,np)

    def fth(xv, tfac):
        # xv: (...,nt,ntv,nq,np) log volume offsets; tfac: multiplicative temperature factor
        nuv = nu[None] * np.exp(-gam[None] * xv - g[None] * xv * xv / 2)
        kTt = kT * tfac
        return kTt * np.log1p(-np.exp(-LD(HC_RY_CM) * nuv / kTt))

    Ft = fth(xs, LD(1))
    step = hv * Vk[None]
    d1 = np.tensordot(C1_7, Ft, axes=(0, 0)) / step
    d2 = np.tensordot(C2_7, Ft, axes=(0, 0)) / step ** 2
    tmask = (T > 0)[:, None]
    Pm = -d1
    Am = Vk[None] * d2 - Pm
    out["P_th"] = np.where(tmask, _sum_modes(Pm, wn, mask), LD(0))
    out["A_th"] = np.where(tmask, _sum_modes(Am, wn, mask), LD(0))
    # scale for tolerances: |per-mode term| * (1 + 0.03 Q): a relative difference d in hc/k_B between
    # CODATA revisions (~5e-10) changes exp(-Q) by d*Q, so the admissible relative error grows with Q
    qfac = 1 + LD(0.03) * Q0
    out["P_th_abs"] = np.where(tmask, _sum_modes(np.abs(d1) * qfac, wn, mask), LD(0))
    out["A_th_abs"] = np.where(tmask, _sum_modes((np.abs(Vk[None] * d2) + np.abs(d1)) * qfac, wn, mask), LD(0))

    # ---------------- dP/dT = - d2F/dTdV ------------------------------------------------------------
    if want_mixed:
        hT = np.minimum(LD(1e-3), LD(0.02) / Q0)                 # (nt,ntv,nq,np) relative step in T
        acc = None
        for a, ja in zip(C1_5, J5):
            if a == 0:
                continue
            tf = 1 + ja * hT
            Fa = fth(xs, tf[None])                               # (7,nt,...)
            dv = np.tensordot(C1_7, Fa, axes=(0, 0)) / step      # dF/dV at shifted T
            acc = a * dv if acc is None else acc + a * dv
        d2tv = acc / (hT * Tpos)
        dPdT_m = -d2tv
        out["dPdT"] = np.where(tmask, _sum_modes(dPdT_m, wn, mask), LD(0))
        out["dPdT_abs"] = np.where(tmask, _sum_modes(np.abs(dPdT_m) * qfac, wn, mask), LD(0))
    return {k: np.asarray(v, dtype=np.float64) for k, v in out.items()}


# ---------------------------------------------------------------------------------------------------
# Independent high-precision cross-check with mpmath (thorough tier, sampled)

def mp_reference_point(nu, gam, g, weights, T, V, dps=40):
    """Single (T,V) point; nu, gam, g: (nq,np).  Returns P_zp, A_zp, P_th, A_th, dPdT as floats."""
    import mpmath as mp
    mp.mp.dps = dps
    nq, npm = np.asarray(nu).shape
    wsum = sum(mp.mpf(float(x)) for x in weights)
    hc = mp.mpf(H_SI) * mp.mpf(C_SI) * 100 / mp.mpf(RY_J)
    kb = mp.mpf(KB_SI) / mp.mpf(RY_J)
    V0 = mp.mpf(float(V))

    def modes():
        for q in range(nq):
            for m in range(npm):
                if q == 0 and m < 3:
                    continue
                yield (mp.mpf(float(weights[q])) / wsum, mp.mpf(float(nu[q][m])),
                       mp.mpf(float(gam[q][m])), mp.mpf(float(g[q][m])))

    def Fzp(v):
        x = mp.log(v / V0)
        return sum(wq * hc * n * mp.exp(-ga * x - gg * x * x / 2) / 2 for wq, n, ga, gg in modes())

    def Fth(v, t):
        x = mp.log(v / V0)
        s = mp.mpf(0)
        for wq, n, ga, gg in modes():
            nv = n * mp.exp(-ga * x - gg * x * x / 2)
            s += wq * kb * t * mp.log1p(-mp.exp(-hc * nv / (kb * t)))
        return s

    res = {}
    d1 = mp.diff(Fzp, V0, 1)
    d2 = mp.diff(Fzp, V0, 2)
    res["P_zp"] = float(-d1)
    res["A_zp"] = float(V0 * d2 + d1)
    if T > 0:
        t0 = mp.mpf(float(T))
        d1 = mp.diff(lambda v: Fth(v, t0), V0, 1)
        d2 = mp.diff(lambda v: Fth(v, t0), V0, 2)
        res["P_th"] = float(-d1)
        res["A_th"] = float(V0 * d2 + d1)
        res["dPdT"] = float(-mp.diff(lambda v, t: Fth(v, t), (V0, t0), (1, 1)))
    else:
        res["P_th"] = res["A_th"] = res["dPdT"] = 0.0
    return res
