"""Runner: tiers, VERIF_SEED, shards, evidence, replay, known findings, exit codes.

  ./check C07 [--tier quick|thorough] [--replay FILE] [--shards N]

exit 0  property held on everything explored (open known findings are printed as KNOWN-FINDING)
exit 1  at least one violation that known_findings.json does not list as open; one line
        "VIOLATION property=<id> replay=<path>" per root-cause bucket
exit 2  harness error (never printed as a violation)
"""
import argparse
import glob
import importlib
import json
import math
import os
import sys
import time
import traceback
import zlib

from . import REPO, VERIF, HarnessError, PropertyViolation, import_cij
from .stats import Stats, jsonable, case_hash

MAX_ROUNDS = 8          # collect-then-continue restarts per subcheck


class Ctx:
    def __init__(self, prop_id, tier, seed, shard=0, nshards=1, excluded=()):
        self.prop_id = prop_id
        self.tier = tier
        self.base_seed = seed
        self.shard = shard
        self.nshards = nshards
        self.seed = seed if nshards == 1 else seed * 1000 + shard
        self.stats = Stats()
        self.excluded = set(excluded)
        self.sub = None
        self.notes = []

    # -- sizes ---------------------------------------------------------------------------
    @property
    def quick(self):
        return self.tier == "quick"

    @property
    def primary(self):
        return self.shard == 0

    def n(self, quick, thorough):
        total = quick if self.tier == "quick" else thorough
        return max(1, int(math.ceil(total / float(self.nshards))))

    def pick(self, quick, thorough):
        return quick if self.tier == "quick" else thorough

    # -- exclusion of confirmed buckets ---------------------------------------------------
    def is_excluded(self, bucket, count=True):
        if bucket in self.excluded:
            if count:
                self.stats.skip(bucket)
            return True
        return False

    # -- recording ------------------------------------------------------------------------
    def case(self, case, nontrivial, classes=(), key=None):
        self.stats.case(case, nontrivial, classes=classes, sub=self.sub, key=key)

    # -- hypothesis glue ------------------------------------------------------------------
    def seed_for(self, name):
        return (self.seed * 1000003 + zlib.crc32((name or "").encode())) % (2 ** 31)

    def run_given(self, fn, *strategies, max_examples, shrink=True, name=None, **kwstrategies):
        import hypothesis
        from hypothesis import HealthCheck, Phase, given, settings
        phases = [Phase.explicit, Phase.generate] + ([Phase.shrink] if shrink else [])
        st = settings(
            max_examples=max_examples, database=None, deadline=None, derandomize=False,
            report_multiple_bugs=False, phases=phases, print_blob=False,
            suppress_health_check=[h for h in HealthCheck if h.name != "filter_too_much"],
        )
        test = hypothesis.seed(self.seed_for(name or self.sub))(st(given(*strategies, **kwstrategies)(fn)))
        from . import LAST_VIOLATION
        LAST_VIOLATION[0] = None
        try:
            test()
        except PropertyViolation:
            raise
        except hypothesis.errors.Flaky as e:
            v = LAST_VIOLATION[0]
            if v is not None:
                # The harness is a pure function of the drawn case.  A case whose oracle failed against the real code
                # but passes when Hypothesis re-runs it in the same process means the code under test carries state
                # from one call to the next: the observed violation stands (it is reported with its case).
                raise PropertyViolation(v.bucket + "/depends-on-earlier-calls",
                                        "%s (not reproduced when the same case is re-run in the same process: %s)" % (
                                            v.message, type(e).__name__), v.case)
            raise HarnessError("hypothesis: %s: %s" % (type(e).__name__, e))
        except hypothesis.errors.HypothesisException as e:
            raise HarnessError("hypothesis: %s: %s" % (type(e).__name__, e))

    def run_machine(self, machine_cls, max_examples, steps, shrink=True, name=None, flaky_is_state_leak=False):
        import hypothesis
        from hypothesis import HealthCheck, Phase, settings
        from hypothesis.stateful import run_state_machine_as_test
        phases = [Phase.explicit, Phase.generate] + ([Phase.shrink] if shrink else [])
        st = settings(
            max_examples=max_examples, stateful_step_count=steps, database=None, deadline=None,
            derandomize=False, report_multiple_bugs=False, phases=phases, print_blob=False,
            suppress_health_check=list(HealthCheck),
        )
        from . import LAST_VIOLATION
        LAST_VIOLATION[0] = None
        try:
            run_state_machine_as_test(hypothesis.seed(self.seed_for(name or self.sub))(machine_cls), settings=st)
        except PropertyViolation:
            raise
        except hypothesis.errors.Flaky as e:
            v = LAST_VIOLATION[0]
            if flaky_is_state_leak and v is not None:
                # the harness is a pure function of the drawn history; a history that fails once and not when it is
                # re-run in the same process means that state of the code under test survived between histories
                raise PropertyViolation(v.bucket + "/state-survives-between-histories",
                                        "%s (not reproducible when the same history is re-run in the same process: %s)" % (
                                            v.message, type(e).__name__), v.case)
            raise HarnessError("hypothesis: %s: %s" % (type(e).__name__, e))
        except hypothesis.errors.HypothesisException as e:
            raise HarnessError("hypothesis: %s: %s" % (type(e).__name__, e))

    # -- atheris (coverage-guided) -----------------------------------------------------------------
    def run_fuzz(self, mod, target, runs, max_time=120):
        """Run vcij.fuzz.driver in a fresh process; replay crash inputs here to obtain the violation."""
        import glob as _glob
        import re
        import shutil
        import subprocess
        import tempfile
        from hypothesis import HealthCheck, given, settings
        deps = os.path.join(VERIF, ".deps")
        if not os.path.isdir(os.path.join(deps, "atheris")):
            self.notes.append("atheris not installed (run ./setup.sh): fuzz target %s skipped" % target)
            return
        art = tempfile.mkdtemp(prefix="cijfuzz-")
        try:
            env = dict(os.environ)
            env["PYTHONPATH"] = os.pathsep.join([VERIF, deps, env.get("PYTHONPATH", "")])
            cmd = [sys.executable, "-m", "vcij.fuzz.driver", self.prop_id, target, str(runs), str(self.seed), art, str(max_time)]
            r = subprocess.run(cmd, env=env, capture_output=True, text=True, timeout=max_time * 3 + 300)
            m = re.findall(r"stat::number_of_executed_units:\s*(\d+)", r.stderr)
            nexec = int(m[-1]) if m else 0
            cov = re.findall(r"cov: (\d+)", r.stderr)
            crashes = sorted(_glob.glob(os.path.join(art, "crash-*")))
            self.notes.append("atheris %s/%s: %d executions, coverage counter %s, %d crash input(s)" % (
                self.prop_id, target, nexec, cov[-1] if cov else "?", len(crashes)))
            self.stats.evaluations += nexec
            self.stats.sub["fuzz:" + target] += nexec
            self.stats.classes["atheris-executions"] += nexec
            if not crashes and r.returncode != 0 and nexec == 0:
                raise HarnessError("atheris driver failed: %s" % r.stderr[-600:])
            if crashes:
                body, strategies = mod.fuzz_targets(self)[target]
                test = settings(database=None, deadline=None, suppress_health_check=list(HealthCheck))(given(*strategies)(body))
                for cpath in crashes:
                    data = open(cpath, "rb").read()
                    test.hypothesis.fuzz_one_input(data)        # raises the PropertyViolation with its case
                raise HarnessError("atheris reported a crash that does not reproduce: %s" % r.stderr[-400:])
        finally:
            shutil.rmtree(art, ignore_errors=True)

    # -- observation of the code under test -----------------------------------------------
    def observe(self, fn, *args, _bucket="crash", _case=None, **kwargs):
        """Call code under test where the property demands a value: any exception is a violation."""
        try:
            return fn(*args, **kwargs)
        except PropertyViolation:
            raise
        except Exception as e:  # noqa
            raise PropertyViolation("%s/%s" % (_bucket, crash_site(e)),
                                    "%s: %s" % (type(e).__name__, str(e)[:300]), _case)


def crash_site(exc):
    """(type, innermost frame under the repository) of an exception -> short bucket string."""
    tb = traceback.extract_tb(exc.__traceback__)
    site = None
    for fr in tb:
        fn = os.path.abspath(fr.filename)
        if fn.startswith(REPO + os.sep):
            site = "%s:%s" % (os.path.relpath(fn, REPO), fr.name)
    if site is None and tb:
        site = "%s:%s" % (os.path.basename(tb[-1].filename), tb[-1].name)
    return "%s@%s" % (type(exc).__name__, site)


# ---------------------------------------------------------------------------------------------

def load_module(prop_id):
    try:
        return importlib.import_module("vcij.props.%s" % prop_id.lower())
    except ModuleNotFoundError as e:
        if e.name and e.name.startswith("vcij.props"):
            raise HarnessError("no check module for %s" % prop_id)
        raise


def load_known(prop_id):
    path = os.path.join(VERIF, "known_findings.json")
    if not os.path.exists(path):
        return []
    with open(path) as fp:
        data = json.load(fp)
    return [f for f in data.get("findings", []) if f.get("property") == prop_id]


def run_subchecks(mod, ctx, only=None):
    """Collect-then-continue: returns list of failure dicts."""
    failures = []
    for name, fn in mod.subchecks(ctx):
        if only and name not in only:
            continue
        ctx.sub = name
        seen = set()
        for _ in range(MAX_ROUNDS):
            try:
                fn(ctx)
                break
            except PropertyViolation as v:
                failures.append({"subcheck": name, "bucket": v.bucket, "message": v.message,
                                 "case": jsonable(v.case)})
                if v.bucket in seen or v.bucket in ctx.excluded:
                    # the generator cannot avoid this class: stop searching this subcheck
                    break
                seen.add(v.bucket)
                ctx.excluded.add(v.bucket)
        ctx.sub = None
    return failures


def shard_main(args):
    prop_id, tier, seed, shard, nshards, excluded, only = args
    try:
        import_cij()
        mod = load_module(prop_id)
        ctx = Ctx(prop_id, tier, seed, shard, nshards, excluded)
        failures = run_subchecks(mod, ctx, only)
        return {"ok": True, "stats": ctx.stats.dump(), "failures": failures, "notes": ctx.notes}
    except HarnessError as e:
        return {"ok": False, "error": "HarnessError: %s" % e}
    except BaseException as e:  # noqa
        return {"ok": False, "error": "".join(traceback.format_exception(type(e), e, e.__traceback__))[-4000:]}
    finally:
        # pool workers are ended without running atexit handlers: remove this process's scratch directories here
        try:
            from .datasets import cleanup_reused
            cleanup_reused()
        except Exception:
            pass


def write_replay(prop_id, failure):
    d = os.path.join(VERIF, "replays")
    os.makedirs(d, exist_ok=True)
    payload = {"property": prop_id, "subcheck": failure["subcheck"], "bucket": failure["bucket"],
               "message": failure["message"], "case": failure["case"]}
    path = os.path.join(d, "%s-%s.json" % (prop_id, case_hash([failure["bucket"], failure["case"]])))
    with open(path, "w") as fp:
        json.dump(payload, fp, indent=1, sort_keys=True)
    return path


def do_replay(mod, ctx, payload):
    """Returns None if the saved case passes, else the PropertyViolation."""
    ctx.sub = payload.get("subcheck")
    try:
        mod.replay(ctx, payload)
        return None
    except PropertyViolation as v:
        return v
    finally:
        ctx.sub = None


def main(argv=None):
    ap = argparse.ArgumentParser()
    ap.add_argument("prop")
    ap.add_argument("--tier", default=os.environ.get("VERIF_TIER", "quick"), choices=["quick", "thorough"])
    ap.add_argument("--replay")
    ap.add_argument("--shards", type=int)
    ap.add_argument("--only", action="append", help="run only this subcheck (debugging)")
    ap.add_argument("--no-evidence", action="store_true")
    ap.add_argument("--no-regressions", action="store_true",
                    help="skip the saved replay files (developer option: measures what the generated search alone finds)")
    a = ap.parse_args(argv)
    prop_id = a.prop.upper()
    try:
        seed = int(os.environ.get("VERIF_SEED", "1") or "1")
    except ValueError:
        seed = 1
    t0 = time.time()
    try:
        import_cij()
        mod = load_module(prop_id)
    except HarnessError as e:
        print("HARNESS-ERROR property=%s %s" % (prop_id, e))
        return 2
    except Exception:
        traceback.print_exc()
        print("HARNESS-ERROR property=%s import failed" % prop_id)
        return 2

    # ---- replay mode ------------------------------------------------------------------------
    if a.replay:
        with open(a.replay) as fp:
            payload = json.load(fp)
        ctx = Ctx(prop_id, a.tier, seed)
        try:
            v = do_replay(mod, ctx, payload)
        except Exception:
            traceback.print_exc()
            print("HARNESS-ERROR property=%s replay crashed" % prop_id)
            return 2
        if v is None:
            print("replay passes: %s" % a.replay)
            return 0
        print("replay fails: %s" % v)
        print("VIOLATION property=%s replay=%s" % (prop_id, os.path.abspath(a.replay)))
        return 1

    violations = []      # (bucket, replay path, message)
    known_lines = []
    excluded = set()

    # ---- regressions first --------------------------------------------------------------------
    known = load_known(prop_id)
    open_by_bucket = {f["bucket"]: f for f in known if f.get("status") == "open"}
    reg_files = [] if a.no_regressions else sorted(glob.glob(os.path.join(VERIF, "regressions", prop_id, "*.json")))
    ctx0 = Ctx(prop_id, a.tier, seed)
    n_reg = 0
    confirmed_open = set()
    try:
        for path in reg_files:
            with open(path) as fp:
                payload = json.load(fp)
            v = do_replay(mod, ctx0, payload)
            n_reg += 1
            if v is None:
                continue
            if v.bucket in open_by_bucket:
                confirmed_open.add(v.bucket)
            else:
                violations.append((v.bucket, path, v.message))
    except HarnessError as e:
        print("HARNESS-ERROR property=%s %s" % (prop_id, e))
        return 2
    except Exception:
        traceback.print_exc()
        print("HARNESS-ERROR property=%s regression replay crashed" % prop_id)
        return 2
    for b in sorted(confirmed_open):
        known_lines.append("KNOWN-FINDING: property=%s %s [%s]" % (prop_id, open_by_bucket[b]["what"], b))
        excluded.add(b)
        for extra in open_by_bucket[b].get("also_exclude", []):
            excluded.add(extra)

    # ---- generated search ---------------------------------------------------------------------
    shards_cfg = getattr(mod, "SHARDS", {"quick": 1, "thorough": 16})
    nshards = a.shards or shards_cfg.get(a.tier, 1)
    jobs = [(prop_id, a.tier, seed, i, nshards, sorted(excluded), a.only) for i in range(nshards)]
    try:
        if nshards == 1:
            results = [shard_main(jobs[0])]
        else:
            import multiprocessing
            mpctx = multiprocessing.get_context(getattr(mod, "MP_CONTEXT", "fork"))
            with mpctx.Pool(min(nshards, os.cpu_count() or 1)) as pool:
                results = pool.map(shard_main, jobs, chunksize=1)
    except BaseException as e:  # noqa  -- a worker died, the pool broke, interrupted ...: never a verdict
        traceback.print_exc()
        print("HARNESS-ERROR property=%s worker pool failed: %s" % (prop_id, type(e).__name__))
        return 2
    bad = [r for r in results if not r["ok"]]
    if bad:
        print(bad[0]["error"])
        print("HARNESS-ERROR property=%s %d shard(s) failed" % (prop_id, len(bad)))
        return 2
    stats = Stats.merge([r["stats"] for r in results])
    stats.merge_regressions = n_reg
    seen_buckets = set(b for b, _, _ in violations)
    for r in results:
        for f in r["failures"]:
            if f["bucket"] in seen_buckets:
                continue
            seen_buckets.add(f["bucket"])
            if f["bucket"] in open_by_bucket:
                if f["bucket"] not in confirmed_open:
                    confirmed_open.add(f["bucket"])
                    known_lines.append("KNOWN-FINDING: property=%s %s [%s]" % (
                        prop_id, open_by_bucket[f["bucket"]]["what"], f["bucket"]))
                continue
            violations.append((f["bucket"], write_replay(prop_id, f), f["message"]))

    wall = time.time() - t0
    notes = sorted(set(n for r in results for n in r.get("notes", [])))
    if not a.no_evidence and not a.only:
        write_evidence(mod, prop_id, a.tier, seed, stats, wall, len(violations), nshards, n_reg,
                       sorted(confirmed_open), notes)
    for line in known_lines:
        print(line)
    print("property=%s tier=%s seed=%d shards=%d evaluations=%d distinct_nontrivial=%d regressions=%d wall=%.1fs" % (
        prop_id, a.tier, seed, nshards, stats.evaluations, len(stats.nontrivial), n_reg, wall))
    if violations:
        for bucket, path, msg in violations:
            print("  bucket=%s  %s" % (bucket, msg[:400]))
            print("VIOLATION property=%s replay=%s" % (prop_id, path))
        return 1
    if stats.evaluations == 0 or len(stats.nontrivial) < 2:
        print("HARNESS-ERROR property=%s vacuous run (evaluations=%d nontrivial=%d)" % (
            prop_id, stats.evaluations, len(stats.nontrivial)))
        return 2
    return 0


def write_evidence(mod, prop_id, tier, seed, stats, wall, nviol, nshards, n_reg, open_confirmed, notes):
    cov = {
        "evaluations": int(stats.evaluations),
        "distinct_nontrivial": int(len(stats.nontrivial)),
        "rule": getattr(mod, "RULE", ""),
        "samples": stats.samples or ["<none>"],
        "classes": dict(sorted(stats.classes.items())),
        "per_subcheck_evaluations": dict(sorted(stats.sub.items())),
        "excluded_known": dict(sorted(stats.excluded.items())),
        "regression_replays": n_reg,
        "open_known_findings_confirmed": open_confirmed,
        "shards": nshards,
        "repo": REPO,
    }
    if notes:
        cov["notes"] = notes
    if getattr(mod, "EXHAUSTIVE", False):
        cov["exhaustive"] = True
        cov["exhaustive_note"] = getattr(mod, "EXHAUSTIVE_NOTE", "")
    ev = {
        "property_id": prop_id,
        "tier": tier,
        "seed": int(seed),
        "level": getattr(mod, "LEVEL", "exploration"),
        "coverage": cov,
        "assumptions": list(getattr(mod, "ASSUMPTIONS", [])),
        "wall_s": round(wall, 2),
        "violations": int(nviol),
    }
    d = os.path.join(VERIF, "evidence")
    os.makedirs(d, exist_ok=True)
    tmp = os.path.join(d, ".%s.json.tmp" % prop_id)
    with open(tmp, "w") as fp:
        json.dump(ev, fp, indent=1, sort_keys=True)
        fp.write("\n")
    os.replace(tmp, os.path.join(d, "%s.json" % prop_id))


if __name__ == "__main__":
    try:
        rc = main()
    except SystemExit:
        raise
    except BaseException:  # noqa  -- anything unforeseen in the harness itself is exit 2, never a violation
        traceback.print_exc()
        print("HARNESS-ERROR unexpected exception in the runner")
        rc = 2
    sys.exit(rc)
