"""Helpers shared by the fill_cij checks (C08 C09 C14 C17)."""
import numpy as np

from .reflaue import SYSTEMS, invariant_basis, nonzero_pattern  # noqa
from .reftensor import KEYS21

NAMES21 = ["c%d%d" % k for k in KEYS21]


def random_invariant(system, rng, nrows, scale=300.0, zero_some=False, zero_one_row=False, tiny_some=False):
    """Random tensors in W: w (nrows, 21).  Coefficients vary smoothly with the row (volume)."""
    B, _ = invariant_basis(system)
    dim = B.shape[1]
    # use a 'natural' basis (reduced row echelon of B^T) so that independent parameters are individual components
    nat = natural_basis(system)
    c0 = rng.uniform(-1.0, 1.0, size=dim) * scale
    c1 = rng.uniform(-0.2, 0.2, size=dim) * scale
    if zero_some and dim > 1:
        z = rng.random(dim) < 0.3
        c0[z] = 0.0
        c1[z] = 0.0
    if tiny_some:
        # small but not vanishing: 1e-7..1e-4 next to components of order 100 (the documented drop threshold is an
        # absolute 1e-8 on the component itself)
        m = rng.random(dim) < 0.3
        m[int(rng.integers(0, dim))] = True
        tiny = rng.choice([-1.0, 1.0], dim) * 10.0 ** rng.uniform(-7, -4, dim)
        c0[m] = tiny[m]
        c1[m] = tiny[m] * rng.uniform(-0.2, 0.2, dim)[m]
    t = np.linspace(0.0, 1.0, nrows)[:, None] if nrows > 1 else np.zeros((1, 1))
    coef = c0[None, :] + t * c1[None, :]
    if zero_one_row and nrows > 1:
        # an independent parameter that changes sign exactly on a grid volume / vanishes at the first volume only
        j = int(rng.integers(0, dim))
        r = int(rng.integers(0, nrows))
        coef[:, j] = (np.arange(nrows) - r) * (scale / 20.0)
    return coef @ nat.T


_nat_cache = {}


def natural_basis(system):
    """Basis of W in which each basis vector has a 1 on its own pivot component (21 x dim)."""
    if system in _nat_cache:
        return _nat_cache[system]
    B, _ = invariant_basis(system)
    M = B.T.copy()                      # dim x 21
    dim = M.shape[0]
    piv = []
    r = 0
    for c in range(21):
        if r == dim:
            break
        p = r + int(np.argmax(np.abs(M[r:, c])))
        if abs(M[p, c]) < 1e-9:
            continue
        M[[r, p]] = M[[p, r]]
        M[r] /= M[r, c]
        for rr in range(dim):
            if rr != r:
                M[rr] -= M[rr, c] * M[r]
        piv.append(c)
        r += 1
    M[np.abs(M) < 1e-12] = 0.0
    _nat_cache[system] = M.T
    return M.T


def reindex(df, kind):
    """Row labels other than 0..n-1 (what sort_values / boolean filtering / set_index leave behind): rows keep their positions."""
    import pandas
    n = len(df)
    if kind == "reversed":
        df.index = pandas.Index(list(range(n - 1, -1, -1)))
    elif kind == "offset":
        df.index = pandas.Index([3 + 2 * i for i in range(n)])
    elif kind == "float":
        df.index = pandas.Index([900.5 - 7.25 * i for i in range(n)], name="vol")
    return df


def make_table(values, keys, names=None, extra=None, volumes=None, dtype=None):
    """pandas DataFrame with the given component columns (values: (nrows, len(keys)))."""
    import pandas
    values = np.asarray(values)
    data = {}
    if volumes is not None:
        data["V"] = list(volumes)
    for n, k in enumerate(keys):
        name = names[n] if names else "c%d%d" % k
        col = values[:, n]
        if dtype == "int":
            col = np.asarray(np.round(col), dtype=np.int64)
        data[name] = col
    if extra:
        data.update(extra)
    return pandas.DataFrame(data)


def table_to_components(df):
    """{(I,J): column array} for every modulus column of a returned table (case-insensitive)."""
    import re
    out = {}
    dup = []
    for name in df.columns:
        m = re.fullmatch(r"[cC](\d)(\d)", str(name))
        if not m:
            continue
        k = (int(m.group(1)), int(m.group(2)))
        if k in out:
            dup.append(name)
        out[k] = np.asarray(df[name], dtype=float)
    return out, dup
