"""C06 - (T,V)->(T,P) conversion evaluates each quantity at the volume where P(T,V)=P.

Oracle: along every isotherm the volume-base quantity is re-interpolated at the requested pressures with an
independent scheme (cubic spline in P, coarse companion: local quadratic) -> adaptive tolerance; analytic
test fields g(P(T,V)) pushed through the public v2p must come back as g(p_array); overshooting pressure grids
(decided with the third-party qha package, far from the boundary) must be rejected.
"""
import warnings

import numpy as np
from hypothesis import strategies as st
from scipy.interpolate import CubicSpline

from .. import PropertyViolation, refphys
from ..datasets import Dataset, Workdir, dataset_specs, materialise, place_pressures, qha_pressure_range

ID = "C06"
SHARDS = {"quick": 16, "thorough": 16}
RULE = ("data sets as C05; requested pressure grid either inside the range reported by the qha package (10 % margins) or "
        "overshooting its upper end by >= max(5 % of the range, 2 GPa) or by only 0.002-0.02 GPa; every modulus (adiabatic, isothermal), six averages, both "
        "velocities and the volume are compared at every (T,P), read again in the opposite order, and compared with what Plotter.plot_cij_p_with / plot_cij_t_with present; non-trivial = inside-grid spanning >= 3 volume-grid cells and >= 2 "
        "temperatures, or an overshooting grid; distinct by the drawn spec")
ASSUMPTIONS = [
    "QHA's P(T,V) on the dense grid is the trusted pressure field (observed through volume_base.pressures)",
    "adaptive tolerance 3*|cubic spline - local quadratic| + 1e-7*scale: any correct interpolation lies inside",
]

AVERAGES = ["bulk_modulus_voigt", "bulk_modulus_reuss", "bulk_modulus_voigt_reuss_hill",
            "shear_modulus_voigt", "shear_modulus_reuss", "shear_modulus_voigt_reuss_hill",
            "primary_velocities", "secondary_velocities"]


@st.composite
def cases(draw):
    s = draw(dataset_specs(max_nq=2, max_na=2, max_nt=4, interpolators=["lsq_poly"]))
    s["order"] = min(s["order"], 3)
    s["overshoot"] = draw(st.sampled_from([False, False, False, True]))
    s["over_by"] = draw(st.floats(0.05, 0.6))
    # 'near': the grid ends 0.002-0.02 GPa above the reachable pressure (the range is predicted with the qha package itself
    # and agrees bit for bit with the table cij's own qha calculator holds, so a miss of 2e-3 GPa is a real overshoot)
    s["over_kind"] = draw(st.sampled_from(["far", "near"]))
    s["edge"] = draw(st.sampled_from([None, None, "low", "high"]))      # lowest / highest request inside the first / last table cell
    return s


def local_quadratic(x, y, p):
    """3-point Lagrange through the nearest nodes (coarse companion)."""
    j = np.clip(np.searchsorted(x, p), 1, len(x) - 2)
    out = np.empty_like(p, dtype=float)
    for n, (pp, jj) in enumerate(zip(p, j)):
        if abs(x[jj - 1] - pp) < abs(x[min(jj + 1, len(x) - 1)] - pp) and jj >= 2:
            jj -= 1 if abs(pp - x[jj - 1]) < abs(x[jj] - pp) else 0
        xs = x[jj - 1: jj + 2]
        ys = y[jj - 1: jj + 2]
        out[n] = sum(ys[a] * np.prod([(pp - xs[b]) / (xs[a] - xs[b]) for b in range(3) if b != a]) for a in range(3))
    return out


def local_cubic(x, y, p):
    """4-point Lagrange through the nodes around the cell (one-sided in the first / last cell of the table)."""
    n = len(x)
    j = np.clip(np.searchsorted(x, p) - 2, 0, n - 4)
    out = np.empty_like(p, dtype=float)
    for m, (pp, jj) in enumerate(zip(p, j)):
        xs, ys = x[jj: jj + 4], y[jj: jj + 4]
        out[m] = sum(ys[a] * np.prod([(pp - xs[b]) / (xs[a] - xs[b]) for b in range(4) if b != a]) for a in range(4))
    return out


def reinterpolate(P, Q, p):
    """best, coarse (nt, npress) for a field Q(T,V) at pressures p along each isotherm."""
    nt = P.shape[0]
    best = np.empty((nt, len(p)))
    coarse = np.empty((nt, len(p)))
    for i in range(nt):
        best[i] = CubicSpline(P[i], Q[i])(p)
        coarse[i] = local_quadratic(P[i], Q[i], p)
    # the interpolation-error scale is taken per isotherm (largest cubic-vs-quadratic difference over all requested
    # pressures): the pointwise difference depends on where in a grid cell the pressure happens to fall
    dev = np.max(np.abs(best - coarse), axis=1, keepdims=True)
    # ... and it includes the spread between the cubic spline and a local 4-point cubic, which is larger than the
    # cubic-vs-quadratic difference in the first / last cell of a coarse table, where every local stencil is one-sided
    if P.shape[1] >= 4:
        cub = np.array([local_cubic(P[i], Q[i], p) for i in range(nt)])
        dev = np.maximum(dev, np.max(np.abs(best - cub), axis=1, keepdims=True))
    coarse = best + np.broadcast_to(dev, best.shape)
    return best, coarse


def oracle(ctx, s, ds, qs, case):
    import cij.core.calculator as cc
    with Workdir() as wd, warnings.catch_warnings(), np.errstate(all="ignore"):
        warnings.simplefilter("ignore")
        path, cfg = materialise(ds, wd, qs)
        if s["overshoot"]:
            try:
                calc = cc.Calculator(path)
            except Exception:
                return {"overshoot": True}
            raise PropertyViolation("C06/overshoot-accepted", "pressure grid up to %.2f GPa accepted although the range ends at %.2f GPa" % (
                qs["P_MIN"] + qs["DELTA_P"] * (qs["NTV"] - 1), s["_hi"]), case)
        calc = ctx.observe(cc.Calculator, path, _bucket="C06/crash", _case=case)
        vb, pb = calc.volume_base, calc.pressure_base
        P = np.array(vb.pressures, dtype=float)
        p = np.array(pb.p_array, dtype=float)
        V = np.array(calc.v_array, dtype=float)
        fields = {}
        keys = list(calc.modulus_keys)
        madi, miso = pb.modulus_adiabatic, pb.modulus_isothermal
        for k in keys:
            fields["c%d%ds" % k.voigt] = (np.array(calc.modulus_adiabatic[k], dtype=float),
                                          np.array(ctx.observe(lambda: madi[k], _bucket="C06/crash", _case=case), dtype=float))
            fields["c%d%dt" % k.voigt] = (np.array(calc.modulus_isothermal[k], dtype=float),
                                          np.array(ctx.observe(lambda: miso[k], _bucket="C06/crash", _case=case), dtype=float))
        for name in AVERAGES:
            fields[name] = (np.array(getattr(vb, name), dtype=float),
                            np.array(ctx.observe(getattr, pb, name, _bucket="C06/crash", _case=case), dtype=float))
        # attribute-style access through __getattr__
        k0 = keys[0]
        fields["attr:c%d%d" % k0.voigt] = (np.array(getattr(vb, "c%d%d" % k0.voigt), dtype=float),
                                            np.array(getattr(pb, "c%d%d" % k0.voigt), dtype=float))
        # read again in the opposite order (Hill before Voigt, isothermal before adiabatic): every pressure-base quantity is
        # the same array as at its first reading
        for name in list(reversed(AVERAGES)) + list(AVERAGES):
            again = np.array(ctx.observe(getattr, pb, name, _bucket="C06/crash", _case=case), dtype=float)
            if again.shape != fields[name][1].shape or not np.array_equal(again, fields[name][1], equal_nan=True):
                raise PropertyViolation("C06/changed-by-reading", "pressure-base %s read again (after the other averages) differs from its first reading" % name, case)
        for k in reversed(keys):
            for suffix, view in (("t", miso), ("s", madi)):
                again = np.array(view[k], dtype=float)
                if not np.array_equal(again, fields["c%d%d%s" % (k.voigt + (suffix,))][1], equal_nan=True):
                    raise PropertyViolation("C06/changed-by-reading", "pressure-base c%d%d%s read again differs from its first reading" % (k.voigt + (suffix,)), case)
        # the plotting helper presents the same pressure-base tables (isotherms and isobars in GPa)
        try:
            from cij.plot.plotter import Plotter
        except Exception:
            Plotter = None
        if Plotter is not None:
            from cij.util import _to_gpa
            plo = Plotter(calc)
            Tg = np.array(calc.t_array, dtype=float)
            pg = np.array(pb.p_array, dtype=float)
            k = keys[len(keys) // 2]
            kint = int("%d%d" % k.voigt)
            want_tab = np.array(_to_gpa(fields["c%d%ds" % k.voigt][1]), dtype=float)
            for it in sorted(set([0, len(Tg) // 2, len(Tg) - 1])):
                xs, ys = ctx.observe(plo.plot_cij_p_with, lambda x, y: (np.array(x, dtype=float), np.array(y, dtype=float)), kint, float(Tg[it]),
                                     _bucket="C06/plotter-crash", _case=case)
                if ys.shape != want_tab[it].shape or not np.allclose(ys, want_tab[it], rtol=1e-12, atol=0, equal_nan=True) \
                        or not np.allclose(xs, np.array(_to_gpa(pg), dtype=float), rtol=1e-12, atol=1e-12):
                    raise PropertyViolation("C06/plotter-isotherm", "Plotter.plot_cij_p_with(c%d, T=%g) does not present pressure_base.modulus_adiabatic along that isotherm" % (
                        kint, Tg[it]), case)
            ip = len(pg) // 3
            xs, ys = ctx.observe(plo.plot_cij_t_with, lambda x, y: (np.array(x, dtype=float), np.array(y, dtype=float)), kint, float(_to_gpa(pg[ip])),
                                 _bucket="C06/plotter-crash", _case=case)
            if ys.shape != want_tab[:, ip].shape or not np.allclose(ys, want_tab[:, ip], rtol=1e-12, atol=0, equal_nan=True):
                raise PropertyViolation("C06/plotter-isobar", "Plotter.plot_cij_t_with(c%d, P) does not present pressure_base.modulus_adiabatic along that isobar" % kint, case)
        vol_tp = np.array(pb.volumes, dtype=float)
        p_conv = np.array(pb.v2p(P), dtype=float)
        g = lambda x: np.sin(40.0 * x) + 3.0 * x
        g_conv = np.array(pb.v2p(g(P)), dtype=float)
        T = np.array(calc.t_array, dtype=float)
        # writing the output files must not change what the conversion returns afterwards
        import os
        import shutil
        import tempfile
        dd = tempfile.mkdtemp(prefix="cijc06-")
        old = os.getcwd()
        os.chdir(dd)
        try:
            calc.config["output"] = {"pressure_base": ["cij", "bm_VRH", "G_VRH", "v", "vs", "vp"], "volume_base": ["p"]}
            ctx.observe(calc.write_output, _bucket="C06/write-crash", _case=case)
        finally:
            os.chdir(old)
            shutil.rmtree(dd, ignore_errors=True)
        after = {"volumes": np.array(ctx.observe(lambda: pb.volumes, _bucket="C06/after-write-crash", _case=case), dtype=float),
                 "p_conv": np.array(ctx.observe(pb.v2p, np.array(vb.pressures, dtype=float), _bucket="C06/after-write-crash", _case=case), dtype=float),
                 "c": np.array(ctx.observe(lambda: pb.modulus_adiabatic[keys[0]], _bucket="C06/after-write-crash", _case=case), dtype=float)}
        if (not np.array_equal(after["volumes"], vol_tp) or not np.array_equal(after["p_conv"], p_conv)
                or not np.array_equal(after["c"], fields["c%d%ds" % keys[0].voigt][1], equal_nan=True)):
            raise PropertyViolation("C06/changed-by-write", "pressure-base quantities differ after write_output()", case)
    nt = P.shape[0]
    # requested pressure grid
    want_p = (qs["P_MIN"] + qs["DELTA_P"] * np.arange(qs["NTV"])) * refphys.GPA_TO_AU
    if p.shape != want_p.shape or np.max(np.abs(p - want_p)) > 1e-7 * np.max(np.abs(want_p)) + 1e-12:
        raise PropertyViolation("C06/p-grid", "p_array is not P_MIN + j*DELTA_P in atomic units", case)
    if not np.all(np.diff(P, axis=1) > 0):
        return None          # pressure field not monotonic: outside the property's premise
    sc = np.max(np.abs(p))
    if p_conv.shape != (nt, len(p)) or np.max(np.abs(p_conv - p[None, :])) > 1e-10 * sc:
        raise PropertyViolation("C06/pressure-roundtrip", "converting the pressure field does not return the requested pressures", case)
    # analytic test field through the public v2p
    bestg, coarseg = reinterpolate(P, g(P), p)
    if np.any(np.abs(g_conv - g(p)[None, :]) > 3 * np.abs(bestg - coarseg) + 3 * np.abs(bestg - g(p)[None, :]) + 1e-9):
        raise PropertyViolation("C06/analytic-field", "v2p(g(P(T,V))) differs from g(p_array)", case)
    # V(T,P)
    Vf = np.broadcast_to(V[None, :], P.shape)
    best, coarse = reinterpolate(P, Vf, p)
    slack = 3 * np.abs(best - coarse) + 1e-7 * np.max(V)
    if vol_tp.shape != best.shape or np.any(np.abs(vol_tp - best) > slack):
        if vol_tp.shape == best.shape:
            ex = np.abs(vol_tp - best) - slack
            it, ip = np.unravel_index(int(np.argmax(ex)), ex.shape)
            raise PropertyViolation("C06/volume", "V(T,P) differs from the volume at which P(T,V)=P: at (iT=%d, ip=%d of %d) code %r, reference %r (coarse %r, slack %.3g)" % (
                it, ip, ex.shape[1], float(vol_tp[it, ip]), float(best[it, ip]), float(coarse[it, ip]), float(slack[it, ip])), case)
        raise PropertyViolation("C06/volume", "V(T,P) differs from the volume at which P(T,V)=P", case)
    if not np.all(np.diff(vol_tp, axis=1) < 0):
        raise PropertyViolation("C06/volume-monotonic", "V(T,P) does not decrease with P", case)
    for i in range(nt):
        # P as a function of V along the isotherm (V decreasing -> reverse); the interpolation error of this reference
        # itself is estimated like everywhere else (cubic spline vs local quadratic, largest over the row)
        spl = CubicSpline(V[::-1], P[i][::-1])
        pv = spl(vol_tp[i])
        dpdv = np.abs(spl(vol_tp[i], 1))
        perr = float(np.max(np.abs(pv - local_quadratic(V[::-1], P[i][::-1], vol_tp[i]))))
        if np.any(np.abs(pv - p) > dpdv * slack[i] * 2 + 3 * perr + 1e-7 * sc):
            raise PropertyViolation("C06/volume-pressure", "P(T,V(T,P)) != P", case)
    # every quantity
    for name, (ftv, ftp) in fields.items():
        best, coarse = reinterpolate(P, np.where(np.isfinite(ftv), ftv, 0.0), p)
        okrow = np.all(np.isfinite(ftv), axis=1)
        slack = 3 * np.abs(best - coarse) + 1e-7 * np.max(np.abs(ftv[okrow])) if np.any(okrow) else None
        if ftp.shape != best.shape:
            raise PropertyViolation("C06/shape", "%s has shape %r on the (T,P) grid" % (name, ftp.shape), case)
        if slack is None:
            continue
        bad = (np.abs(ftp - best) > slack) & okrow[:, None]
        if np.any(bad):
            idx = tuple(int(x) for x in np.argwhere(bad)[0])
            kind = "modulus" if name[0] == "c" or name.startswith("attr") else "derived"
            raise PropertyViolation("C06/value/%s" % kind, "%s at (T=%g, P=%g GPa): code %r, volume-base value at V(T,P) %r (slack %.3g)" % (
                name, T[idx[0]], p[idx[1]] * refphys.AU_TO_GPA, float(ftp[idx]), float(best[idx]), float(slack[idx])), case)
    # adiabatic and isothermal must be the corresponding tensors (they differ at T>0)
    cells = int(np.min([np.searchsorted(P[i], p[-1]) - np.searchsorted(P[i], p[0]) for i in range(nt)]))
    return {"overshoot": False, "cells": cells, "nt": nt}


def build(s):
    ds = Dataset(s)
    r = place_pressures(ds, edge=None if s["overshoot"] else s.get("edge"))
    if r is None:
        return ds, None
    qs, (lo, hi) = r[0], r[1][:2]
    if s["overshoot"]:
        R = hi - lo
        top = hi + max(0.05 * R, 2.0) + s["over_by"] * R
        if s.get("over_kind") == "near":
            top = hi + 0.002 + 0.03 * s["over_by"]
        qs = dict(qs)
        qs["DELTA_P"] = float("%.8f" % ((top - qs["P_MIN"]) / (qs["NTV"] - 1)))
        if not qs["P_MIN"] + qs["DELTA_P"] * (qs["NTV"] - 1) > hi + 1e-3:
            return ds, None
        qs["DELTA_P_SAMPLE"] = qs["DELTA_P"]
        s["_hi"] = hi
    return ds, qs


def sub_conversion(ctx):
    def body(s):
        s = dict(s)
        ds, qs = build(s)
        if qs is None:
            ctx.stats.skip("unusable-dataset")
            return
        info = oracle(ctx, s, ds, qs, s)
        if info is None:
            ctx.stats.skip("non-monotonic-pressure")
            return
        if info["overshoot"]:
            ctx.case(s, True, classes=["overshoot-rejected", "overshoot-" + s.get("over_kind", "far")])
        else:
            ctx.case(s, info["cells"] >= 3 and s["nt"] + 4 >= 2, classes=["inside", "cells>=3" if info["cells"] >= 3 else "cells<3",
                                                                         "edge-%s" % s.get("edge")])

    ctx.run_given(body, cases(), max_examples=ctx.n(128, 5000), shrink=not ctx.quick)


def subchecks(ctx):
    return [("conversion", sub_conversion)]


def replay(ctx, payload):
    s = dict(payload["case"])
    ds, qs = build(s)
    if qs is not None:
        oracle(ctx, s, ds, qs, s)
