"""C16 - effective configuration = user settings over packaged defaults; invalid rejected.

Oracles: reference recursive merge (user leaves win, union of keys), inputs unmodified, idempotence, YAML == JSON
round trip through read_config; documented field table (type / minimum / enumeration per field) -> valid
configurations by construction are accepted, every single-field perturbation is rejected; shipped files validate.
"""
import copy
import glob
import json
import os
import shutil
import tempfile

from hypothesis import strategies as st

from .. import REPO, PropertyViolation

ID = "C16"
SHARDS = {"quick": 4, "thorough": 16}
RULE = ("(merge) pairs of nested dictionaries from a recursive strategy over a small key alphabet (so that keys collide) with JSON "
        "leaves; classes: disjoint, nested overlap, user scalar over default dict, user dict over default scalar, empty dicts. "
        "(load) JSON-compatible trees dumped as .json/.yml/.yaml. (validate) configurations built from the documented field table, "
        "each field absent or valid, and every single-field perturbation (wrong type incl. bool for number, below minimum, unknown "
        "enum member, unknown key under elast.settings / symmetry, missing qha / elast); (load) JSON-like trees incl. numbers json writes as 1e-08 / 1e+16, written compact, indented by 2 or by tabs, and as YAML; non-trivial = overlap at depth >= 2, or a "
        "perturbation of a nested field; distinct by the drawn value")
ASSUMPTIONS = [
    "when a user dictionary meets a default scalar (or the reverse) the user's value is the effective one",
    "nothing is asserted where the schema is silent (DT <= 0, unknown keys in qha.settings, 3.0 for an integer)",
]

KEYS = ["a", "b", "c", "qha", "settings", "NT"]
leaves = st.one_of(st.integers(-5, 5), st.floats(-1e3, 1e3, allow_nan=False), st.text("xyz", max_size=3), st.booleans(), st.none(),
                   st.lists(st.integers(0, 3), max_size=3))


def trees(max_depth=3):
    return st.recursive(st.dictionaries(st.sampled_from(KEYS), leaves, max_size=4),
                        lambda ch: st.dictionaries(st.sampled_from(KEYS), st.one_of(leaves, ch), max_size=4), max_leaves=12)


def ref_merge(user, default):
    out = {}
    for k in set(user) | set(default):
        if k not in user:
            out[k] = default[k]
        elif k not in default:
            out[k] = user[k]
        elif isinstance(user[k], dict) and isinstance(default[k], dict):
            out[k] = ref_merge(user[k], default[k])
        else:
            out[k] = user[k]
    return out


def overlap_class(u, d, depth=1):
    """classes of the pair and the largest depth with a shared key."""
    cl, deep = set(), 0
    if not u or not d:
        cl.add("empty")
    shared = set(u) & set(d)
    if not shared:
        cl.add("disjoint")
    for k in shared:
        deep = max(deep, depth)
        if isinstance(u[k], dict) and isinstance(d[k], dict):
            c2, d2 = overlap_class(u[k], d[k], depth + 1)
            cl |= {"nested-overlap"} | (c2 - {"disjoint", "empty"})
            deep = max(deep, d2)
        elif isinstance(u[k], dict):
            cl.add("user-dict-over-default-scalar")
        elif isinstance(d[k], dict):
            cl.add("user-scalar-over-default-dict")
    return cl, deep


def merge_oracle(ctx, u, d, case):
    from cij.io.config import update_config
    cl, deep = overlap_class(u, d)
    tag = "/user-dict-over-default-scalar" if "user-dict-over-default-scalar" in cl else ""
    u0, d0 = copy.deepcopy(u), copy.deepcopy(d)
    try:
        got = update_config(u, d)
    except Exception as e:  # noqa
        from ..runner import crash_site
        raise PropertyViolation("C16/merge%s/crash/%s" % (tag, crash_site(e)), "%s: %s" % (type(e).__name__, e), case)
    if u != u0 or d != d0:
        raise PropertyViolation("C16/merge%s/input-mutated" % tag, "update_config modified one of its inputs", case)
    want = ref_merge(u0, d0)
    if got != want:
        raise PropertyViolation("C16/merge%s/wrong-result" % tag, "effective configuration %r, expected %r" % (got, want), case)
    again = update_config(got, d)
    if again != got:
        raise PropertyViolation("C16/merge%s/not-idempotent" % tag, "merging the defaults again changes the result", case)
    # (the result may share sub-dictionaries with its inputs: update_config promises not to modify them itself, not deep copies)
    return cl, deep


def scribble(x):
    """overwrite every leaf and extend every container of a nested config in place"""
    if isinstance(x, dict):
        for k in list(x):
            if isinstance(x[k], (dict, list)):
                scribble(x[k])
            else:
                x[k] = "scribbled"
        x["__extra__"] = 1
    elif isinstance(x, list):
        for i in range(len(x)):
            if isinstance(x[i], (dict, list)):
                scribble(x[i])
            else:
                x[i] = "scribbled"
        x.append("__extra__")


def merge_target(ctx):
    def body(u, d):
        case = {"user": u, "default": d}
        cl, deep = overlap_class(u, d)
        if "user-dict-over-default-scalar" in cl and ctx.is_excluded("C16/merge/user-dict-over-default-scalar"):
            return
        try:
            merge_oracle(ctx, u, d, case)
        except PropertyViolation as v:
            if "user-dict-over-default-scalar" in v.bucket:
                raise PropertyViolation("C16/merge/user-dict-over-default-scalar", v.bucket + ": " + v.message, v.case)
            raise
        ctx.case(case, deep >= 2, classes=sorted(cl) + ["depth=%d" % deep])

    return body, (trees(), trees())


def sub_merge(ctx):
    body, sts = merge_target(ctx)
    ctx.run_given(body, *sts, max_examples=ctx.n(3000, 200000))


def fuzz_targets(ctx):
    return {"merge": merge_target(ctx)}


def sub_fuzz(ctx):
    if ctx.quick or not ctx.primary:
        return
    import sys
    ctx.run_fuzz(sys.modules[__name__], "merge", runs=300000, max_time=60)


def sub_apply_default(ctx):
    """apply_default_config against the packaged defaults (read with an own yaml load)."""
    import yaml
    from cij.io.config import apply_default_config
    with open(os.path.join(REPO, "cij", "data", "default", "settings.yaml")) as fp:
        default = yaml.safe_load(fp)

    user_cfg = st.fixed_dictionaries({}, optional={
        "qha": st.fixed_dictionaries({}, optional={"input": st.text("abc", min_size=1, max_size=4),
                                                   "settings": st.dictionaries(st.sampled_from(["NT", "DT", "T_MIN", "P_MIN", "NTV", "order", "extra"]),
                                                                               st.integers(1, 50), max_size=4)}),
        "elast": st.fixed_dictionaries({}, optional={"input": st.just("e.dat"),
                                                     "settings": st.fixed_dictionaries({}, optional={
                                                         "mode_gamma": st.fixed_dictionaries({}, optional={"order": st.integers(1, 5), "interpolator": st.just("spline")}),
                                                         "symmetry": st.fixed_dictionaries({}, optional={"system": st.just("cubic"), "drop_atol": st.just(1e-3)})})}),
        "output": st.fixed_dictionaries({}, optional={"pressure_base": st.lists(st.sampled_from(["cij", "vs"]), max_size=2),
                                                      "volume_base": st.lists(st.sampled_from(["p"]), max_size=1)}),
    })

    def body(u):
        u0 = copy.deepcopy(u)
        got = ctx.observe(apply_default_config, u, _bucket="C16/apply-default/crash", _case=u)
        if u != u0:
            raise PropertyViolation("C16/apply-default/input-mutated", "apply_default_config modified its input", u)
        want = ref_merge(u0, default)
        if got != want:
            raise PropertyViolation("C16/apply-default/wrong-result", "effective configuration differs from user-over-defaults", u)
        # what the caller does with the effective configuration must not change the packaged defaults for later calls
        scribble(got)
        again = ctx.observe(apply_default_config, copy.deepcopy(u0), _bucket="C16/apply-default/crash", _case=u0)
        if again != want:
            raise PropertyViolation("C16/apply-default/defaults-changed-by-caller",
                                    "after editing an effective configuration, a later call no longer returns the packaged defaults", u0)
        cl, deep = overlap_class(u0, default)
        ctx.case(u0, deep >= 2, classes=["apply-default", "depth=%d" % deep])

    ctx.run_given(body, user_cfg, max_examples=ctx.n(400, 20000))


json_trees = st.recursive(
    st.one_of(st.integers(-10 ** 6, 10 ** 6), st.floats(-1e6, 1e6, allow_nan=False),
              # numbers json writes in exponent notation without a decimal point (1e-08 is the packaged drop_atol)
              st.sampled_from([1e-08, 1e-05, 5e-10, 1e+16, 2e+22, -3e-07, 1e-300]),
              st.text("abc yes no null 1e3:#-", max_size=6),
              st.booleans(), st.none()),
    lambda ch: st.one_of(st.lists(ch, max_size=3), st.dictionaries(st.text("abcNT_", min_size=1, max_size=4), ch, max_size=3)), max_leaves=10)


def sub_load(ctx):
    import yaml
    from cij.io.config import read_config

    def body(tree, top, jstyle):
        cfg = {"qha": {}, "elast": {}, top: tree}
        d = tempfile.mkdtemp(prefix="cijc16-")
        try:
            loaded = {}
            for ext in (".json", ".yml", ".yaml"):
                p = os.path.join(d, "settings" + ext)
                with open(p, "w") as fp:
                    if ext == ".json":
                        json.dump(cfg, fp, **{"compact": {}, "indent-2": {"indent": 2}, "indent-tab": {"indent": "\t"}}[jstyle])
                    else:
                        yaml.safe_dump(cfg, fp)
                loaded[ext] = ctx.observe(read_config, p, False, _bucket="C16/load/crash", _case={"tree": tree})
            for ext, val in loaded.items():
                if val != cfg:
                    raise PropertyViolation("C16/load/%s" % ext.strip("."), "configuration loaded from %s differs from what was written" % ext, {"tree": tree, "top": top})
            # unsupported suffix is rejected
            p = os.path.join(d, "settings.txt")
            open(p, "w").write(json.dumps(cfg))
            try:
                read_config(p, False)
            except Exception:
                pass
            else:
                raise PropertyViolation("C16/load/unknown-suffix-accepted", "a .txt file was loaded", {"tree": tree})
        finally:
            shutil.rmtree(d, ignore_errors=True)
        ctx.case({"tree": tree, "top": top, "jstyle": jstyle}, isinstance(tree, (dict, list)) and len(tree) > 0, classes=["load", "json-" + jstyle])

    ctx.run_given(body, json_trees, st.sampled_from(["output", "extra"]), st.sampled_from(["compact", "indent-2", "indent-tab"]),
                  max_examples=ctx.n(300, 20000))


# ---------------------------------------------------------------------------------------------------------
# documented field table: path -> (kind, minimum, enum, valid strategy)
INTERP = ["lsq_poly", "lagrange", "spline", "krogh", "pchip", "hermite", "akima"]
SYSTEMS = ["triclinic", "monoclinic", "hexagonal", "trigonal6", "trigonal7", "orthorhombic", "tetragonal6", "tetragonal7", "cubic"]
FIELDS = {
    ("qha", "input"): ("string", None, None),
    ("qha", "settings", "NT"): ("integer", 1, None),
    ("qha", "settings", "DT"): ("number", None, None),
    ("qha", "settings", "T_MIN"): ("number", 0, None),
    ("qha", "settings", "NTV"): ("integer", 1, None),
    ("qha", "settings", "P_MIN"): ("number", None, None),
    ("qha", "settings", "DELTA_P"): ("number", None, None),
    ("qha", "settings", "DELTA_P_SAMPLE"): ("number", None, None),
    ("qha", "settings", "volume_ratio"): ("number", 1.0, None),
    ("qha", "settings", "order"): ("number", 2, None),
    ("elast", "input"): ("string", None, None),
    ("elast", "settings", "mode_gamma", "interpolator"): ("string", None, INTERP),
    ("elast", "settings", "mode_gamma", "order"): ("integer", 1, None),
    ("elast", "settings", "symmetry", "system"): ("string", None, SYSTEMS),
    ("elast", "settings", "symmetry", "ignore_residuals"): ("boolean", None, None),
    ("elast", "settings", "symmetry", "ignore_rank"): ("boolean", None, None),
    ("elast", "settings", "symmetry", "drop_atol"): ("number", None, None),
    ("elast", "settings", "symmetry", "residual_atol"): ("number", None, None),
}


def valid_value(draw, spec):
    kind, minimum, enum = spec
    if enum:
        return draw(st.sampled_from(enum))
    if kind == "string":
        return draw(st.text("abcdef01._", min_size=1, max_size=8))
    if kind == "boolean":
        return draw(st.booleans())
    lo = minimum if minimum is not None else -1000
    if kind == "integer":
        return draw(st.integers(int(lo), 2000))
    return draw(st.one_of(st.integers(int(lo), 2000), st.floats(float(lo), 2000.0, allow_nan=False)))


def set_path(cfg, path, value):
    d = cfg
    for k in path[:-1]:
        d = d.setdefault(k, {})
    d[path[-1]] = value


@st.composite
def valid_configs(draw):
    cfg = {"qha": {}, "elast": {}}
    for path, spec in FIELDS.items():
        if draw(st.booleans()):
            set_path(cfg, path, valid_value(draw, spec))
    if draw(st.booleans()):
        cfg["output"] = {"pressure_base": ["cij"], "volume_base": ["p"]}
    if draw(st.booleans()):
        cfg["qha"].setdefault("settings", {})["static_only"] = draw(st.booleans())     # documented in the defaults, schema silent
    return cfg


def perturbations(draw, cfg):
    """One invalid single-field perturbation of a valid configuration: (description, new config, nested?)."""
    kind = draw(st.sampled_from(["type", "minimum", "enum", "unknown-key", "missing-section"]))
    new = copy.deepcopy(cfg)
    if kind == "missing-section":
        sec = draw(st.sampled_from(["qha", "elast"]))
        del new[sec]
        return "missing %s" % sec, new, False
    if kind == "unknown-key":
        where = draw(st.sampled_from([("elast", "settings"), ("elast", "settings", "symmetry")]))
        set_path(new, where + (draw(st.sampled_from(["sytem", "foo", "Order", "ignore_ranks"])),), 1)
        return "unknown key under %s" % ".".join(where), new, True
    cands = [(p, s) for p, s in FIELDS.items()
             if (kind == "type") or (kind == "minimum" and s[1] is not None) or (kind == "enum" and s[2])]
    path, spec = draw(st.sampled_from(cands))
    k, minimum, enum = spec
    if kind == "enum":
        val = draw(st.sampled_from(["orthrohombic", "Cubic", "cubic ", "splines", "", "x"]))
    elif kind == "minimum":
        val = minimum - draw(st.sampled_from([1, 0.5, 100])) if k != "integer" else minimum - draw(st.sampled_from([1, 7]))
    else:
        wrong = {"string": [1, 2.5, True, None, ["a"], {"a": 1}],
                 "integer": ["3", 2.5, True, None, [1], {"a": 1}],
                 "number": ["3.0", True, False, None, [1.0], {"a": 1}],
                 "boolean": [0, 1, "true", None, "False"]}[k]
        val = draw(st.sampled_from(wrong))
    set_path(new, path, val)
    return "%s of %s -> %r" % (kind, ".".join(path), val), new, len(path) >= 3


def sub_validate(ctx):
    from cij.io.config import validate_config

    def body(data):
        cfg = data.draw(valid_configs())
        try:
            validate_config(copy.deepcopy(cfg))
        except Exception as e:  # noqa
            raise PropertyViolation("C16/validate/valid-rejected", "documented configuration rejected: %s" % str(e)[:200], cfg)
        desc, bad, nested = perturbations(data.draw, cfg)
        try:
            validate_config(copy.deepcopy(bad))
        except Exception:
            ctx.case({"config": cfg, "perturbation": desc}, nested, classes=["perturbation-" + desc.split()[0]])
            return
        raise PropertyViolation("C16/validate/invalid-accepted/%s" % desc.split()[0], "invalid configuration accepted (%s)" % desc, bad)

    ctx.run_given(body, st.data(), max_examples=ctx.n(1500, 100000))


def sub_fields(ctx):
    """Every documented field x every perturbation kind, enumerated (complete for the field table)."""
    if not ctx.primary:
        return
    from cij.io.config import validate_config
    base = {"qha": {}, "elast": {}}
    validate_config(copy.deepcopy(base))
    for path, (k, minimum, enum) in FIELDS.items():
        goods = {"string": ["input01"], "integer": [max(1, int(minimum or 1)), 7], "number": [max(2, minimum or 2), 2.5],
                 "boolean": [True, False]}[k]
        if enum:
            goods = list(enum)
        for g in goods:
            cfg = copy.deepcopy(base)
            set_path(cfg, path, g)
            try:
                validate_config(cfg)
            except Exception as e:  # noqa
                raise PropertyViolation("C16/validate/valid-rejected", "%s = %r rejected: %s" % (".".join(path), g, str(e)[:100]), cfg)
            ctx.case({"field": ".".join(path), "value": g, "expect": "accept"}, len(path) >= 3, classes=["field-valid"])
        bads = {"string": [1, True, None, ["a"]], "integer": ["3", 2.5, True, None], "number": ["3.0", True, None, [1.0]],
                "boolean": [0, 1, "true", None]}[k]
        if minimum is not None:
            bads = bads + ([minimum - 1] if k == "integer" else [minimum - 1, minimum - 0.001])
        if enum:
            bads = bads + ["orthrohombic", "x", enum[0].upper(), enum[0] + " "]
        for b in bads:
            cfg = copy.deepcopy(base)
            set_path(cfg, path, b)
            try:
                validate_config(cfg)
            except Exception:
                ctx.case({"field": ".".join(path), "value": b, "expect": "reject"}, len(path) >= 3, classes=["field-invalid"])
                continue
            raise PropertyViolation("C16/validate/invalid-accepted/field", "%s = %r accepted" % (".".join(path), b), cfg)
    # shipped files
    from cij.io.config import read_config
    files = sorted(glob.glob(os.path.join(REPO, "examples", "*", "settings.yaml"))) + [os.path.join(REPO, "cij", "data", "default", "settings.yaml")]
    for f in files:
        try:
            cfg = read_config(f)
            validate_config(cfg)
        except Exception as e:  # noqa
            raise PropertyViolation("C16/validate/shipped-file-rejected", "%s: %s" % (os.path.relpath(f, REPO), str(e)[:200]), {"file": os.path.relpath(f, REPO)})
        ctx.case({"file": os.path.relpath(f, REPO)}, True, classes=["shipped-file"])


def subchecks(ctx):
    return [("merge", sub_merge), ("apply_default", sub_apply_default), ("load", sub_load), ("validate", sub_validate), ("fields", sub_fields),
            ("fuzz", sub_fuzz)]


def replay(ctx, payload):
    case = payload["case"]
    sub = payload.get("subcheck")
    if sub in ("merge", "fuzz"):
        try:
            merge_oracle(ctx, case["user"], case["default"], case)
        except PropertyViolation as v:
            if "user-dict-over-default-scalar" in v.bucket:
                raise PropertyViolation("C16/merge/user-dict-over-default-scalar", v.bucket + ": " + v.message, v.case)
            raise
    elif sub == "fields":
        sub_fields(ctx)
    elif sub == "validate":
        from cij.io.config import validate_config
        try:
            validate_config(copy.deepcopy(case))
        except Exception:
            if "valid-rejected" in payload["bucket"]:
                raise PropertyViolation(payload["bucket"], "documented configuration rejected", case)
            return
        if "invalid-accepted" in payload["bucket"]:
            raise PropertyViolation(payload["bucket"], "invalid configuration accepted", case)
    elif sub == "apply_default":
        import yaml
        from cij.io.config import apply_default_config
        with open(os.path.join(REPO, "cij", "data", "default", "settings.yaml")) as fp:
            default = yaml.safe_load(fp)
        if apply_default_config(copy.deepcopy(case)) != ref_merge(case, default):
            raise PropertyViolation(payload["bucket"], "effective configuration differs", case)
