"""C11 - every interpolation method returns a consistent (omega, gamma, V dgamma/dV) triple.

Oracles: (i) internal consistency by central differences of the returned functions on harness-chosen probe
triplets (adaptive tolerance from two step sizes), (ii) exactness on power-law data for every method and on
polynomial ln nu(ln V) for least squares, (iii) Gamma-acoustic zeros, (iv) metamorphic: permuting (q,m) of the
input permutes the output; single-mode calls agree, (v) the diagnostic plot draws the analytic nu, gamma,
dgamma/dlnV of a polynomial data set for n = 0, 1, 2 (recording axes object).
"""
import warnings

import numpy as np
from hypothesis import strategies as st

from .. import PropertyViolation
from ..datasets import Dataset, Workdir, dataset_specs, materialise, place_pressures

ID = "C11"
SHARDS = {"quick": 14, "thorough": 16}
METHODS = ["lsq_poly", "spline", "lagrange", "krogh", "pchip", "akima", "hermite"]
RULE = ("seven methods x admissible orders (spline 2-5, node-based >= 2, least squares 1-5, all below the number of volumes), 4-12 "
        "volumes, tables: power law / polynomial in ln V / generic smooth positive, 1-4 q-points, 3-9 modes, probe volumes inside and "
        "beyond the sampled range (ratio 1.2-1.4), kept away from nodes; (plot) least squares of order 1-3 on tables of that degree, every n and q-point; non-trivial = non-power-law table, or a probe outside the "
        "sampled range, or an index (q,m) != (0,.); distinct by the drawn case")
ASSUMPTIONS = [
    "central differences of the returned functions at two step sizes (1e-4, 2e-4 in ln V): tolerance 4*|difference| + 1e-6*scale",
    "probes are kept >= 1e-3 (in ln V) away from the interpolation nodes (piecewise methods have kinks there)",
]


def make_input(volumes, freqs, weights=None):
    """freqs: (nv, nq, np) -> cij.io.traditional.models.QHAInputData"""
    from cij.io.traditional import models
    nv, nq, npm = freqs.shape
    vols = []
    for i in range(nv):
        qs = [models.QPointData((0.0, 0.0, 0.1 * j), [float(x) for x in freqs[i, j]]) for j in range(nq)]
        vols.append(models.VolumeData(0.0, float(volumes[i]), -1.0, qs))
    if weights is None:
        # the interpolation must not depend on the q-point weights at all: use a mixture incl. zero weights
        # (band-path points appended to a mesh carry weight 0)
        weights = [float((3 * j + 1) % 4) for j in range(nq)]
    w = [models.QPointWeight((0.0, 0.0, 0.1 * j), float(weights[j])) for j in range(nq)]
    return models.QHAInputData(nv, nq, npm, 1, npm // 3, w, vols)


@st.composite
def cases(draw, methods=METHODS):
    method = draw(st.sampled_from(methods))
    nv = draw(st.integers(4, 12))
    if method == "spline":
        order = draw(st.integers(2, min(5, nv - 1)))
    elif method == "lsq_poly":
        order = draw(st.integers(1, min(5, nv - 1)))
    else:
        # node-based: every ceil(nv/order)-th volume; orders beyond nv use all volumes (piecewise methods only: lagrange
        # and krogh through all of 9-12 nodes are numerically unstable, as cij's own comments say)
        order = draw(st.integers(2, nv + 3 if method in ("pchip", "akima", "hermite") else nv - 1))
    family = draw(st.sampled_from(["power", "poly", "generic"]))
    nq = draw(st.integers(1, 4))
    na = draw(st.integers(1, 3))
    if nq == 1 and na == 1:
        na = 2                                # at least three non-acoustic modes
    seed = draw(st.integers(0, 2 ** 32 - 1))
    vmax = draw(st.floats(100.0, 3000.0))
    span = draw(st.floats(1.15, 1.5))
    ratio = draw(st.floats(1.2, 1.4))
    nprobe = draw(st.integers(4, 10))
    return {"method": method, "order": order, "nv": nv, "family": family, "nq": nq, "na": na, "seed": seed,
            "vmax": vmax, "span": span, "ratio": ratio, "nprobe": nprobe}


def build_table(c):
    rng = np.random.default_rng(c["seed"])
    nv, nq, npm = c["nv"], c["nq"], 3 * c["na"]
    vmax = c["vmax"]
    vmin = vmax / c["span"]
    frac = np.sort(np.concatenate([[0.0, 1.0], (np.arange(1, nv - 1) + 0.5 * (rng.random(nv - 2) - 0.5)) / (nv - 1)]))
    vols = vmax - frac * (vmax - vmin)
    vref = np.sqrt(vmax * vmin)
    x = np.log(vols / vref)[:, None, None]
    a0 = np.log(rng.uniform(60, 1200, size=(nq, npm)))
    a1 = -rng.uniform(0.3, 2.5, size=(nq, npm))
    deg = 1
    coef = [a0, a1]
    if c["family"] == "poly":
        deg = int(rng.integers(2, 4))
        for d in range(2, deg + 1):
            coef.append(rng.uniform(-1, 1, size=(nq, npm)))
    lnnu = sum(cf * x ** d for d, cf in enumerate(coef))
    if c["family"] == "generic":
        lnnu = lnnu + 0.05 * np.sin(6.0 * x + rng.uniform(0, 6, size=(nq, npm))) + 0.3 * x ** 2
    freqs = np.exp(lnnu)
    freqs[:, 0, :3] = rng.uniform(-1.0, 1.0, size=(nv, 3))        # acoustic slots: small garbage as in real files
    return vols, freqs, vref, coef, deg


def call(ctx, qin, v_array, c, case):
    from cij.core.mode_gamma import interpolate_modes
    with warnings.catch_warnings(), np.errstate(all="ignore"):
        warnings.simplefilter("ignore")
        try:
            out = interpolate_modes(qin, np.asarray(v_array, dtype=float), method=c["method"], order=c["order"])
        except Exception as e:  # noqa
            from ..runner import crash_site
            raise PropertyViolation("C11/method=%s/crash/%s" % (c["method"], crash_site(e)), "%s: %s" % (type(e).__name__, str(e)[:200]), case)
    return [np.asarray(o) for o in out]


def probes(c, vols, rng):
    lo, hi = np.log(vols.min() / c["ratio"]), np.log(vols.max() * c["ratio"])
    nodes = np.log(vols)
    out = []
    tries = 0
    while len(out) < c["nprobe"] and tries < 200:
        tries += 1
        p = rng.uniform(lo + 1e-3, hi - 1e-3)
        if np.min(np.abs(nodes - p)) < 1.2e-3:
            continue
        out.append(p)
    return np.array(out)


def oracle(ctx, c, case=None):
    case = case or c
    m = c["method"]
    vols, freqs, vref, coef, deg = build_table(c)
    qin = make_input(vols, freqs)
    rng = np.random.default_rng(c["seed"] ^ 0xABCDEF)
    lp = probes(c, vols, rng)
    h = 1e-4
    grid = np.exp(np.concatenate([lp - 2 * h, lp - h, lp, lp + h, lp + 2 * h]))
    f, g, d = call(ctx, qin, grid, c, case)
    n = len(lp)
    nq, npm = freqs.shape[1:]
    bucket = "C11/method=%s" % m
    if f.shape != (5 * n, nq, npm) or g.shape != f.shape or d.shape != f.shape:
        raise PropertyViolation(bucket + "/shape", "output shapes %r" % (f.shape,), case)
    # Gamma acoustic modes identically zero
    if np.any(f[:, 0, :3] != 0) or np.any(g[:, 0, :3] != 0) or np.any(d[:, 0, :3] != 0):
        raise PropertyViolation(bucket + "/acoustic-nonzero", "Gamma-point acoustic modes are not left at zero", case)
    mask = np.ones((nq, npm), dtype=bool)
    mask[0, :3] = False
    for name, arr in (("frequency", f), ("gamma", g), ("dgamma", d)):
        if not np.all(np.isfinite(arr[:, mask])):
            inside = (lp > np.log(vols.min())) & (lp < np.log(vols.max()))
            where = "inside" if np.all(np.isfinite(arr[2 * n:3 * n][inside][:, mask])) else "everywhere"
            raise PropertyViolation(bucket + "/nonfinite", "%s not finite (%s the sampled range ok)" % (name, where), case)
    if np.any(f[:, mask] <= 0):
        raise PropertyViolation(bucket + "/nonpositive", "interpolated frequency not positive", case)
    lnf = np.log(np.where(mask, f, 1.0))
    blk = lambda a, k: a[k * n:(k + 1) * n]
    # gamma = - dln f / dln V
    g1 = -(blk(lnf, 3) - blk(lnf, 1)) / (2 * h)
    g2 = -(blk(lnf, 4) - blk(lnf, 0)) / (4 * h)
    gc = blk(g, 2)
    sc = np.max(np.abs(gc[:, mask])) + 1.0
    tol = 4 * np.abs(g1 - g2) + 1e-6 * sc
    bad = mask[None] & ~(np.abs(gc - g1) <= tol)
    if np.any(bad):
        i = tuple(int(x) for x in np.argwhere(bad)[0])
        raise PropertyViolation(bucket + "/gamma-inconsistent", "gamma at probe %d (q,m)=(%d,%d): returned %r, -dln(omega)/dlnV of the returned omega %r" % (
            i[0], i[1], i[2], float(gc[i]), float(g1[i])), case)
    # third = d gamma / dln V
    d1 = (blk(g, 3) - blk(g, 1)) / (2 * h)
    d2 = (blk(g, 4) - blk(g, 0)) / (4 * h)
    dc = blk(d, 2)
    sc = np.max(np.abs(dc[:, mask])) + 1.0
    tol = 4 * np.abs(d1 - d2) + 1e-6 * sc
    bad = mask[None] & ~(np.abs(dc - d1) <= tol)
    if np.any(bad):
        i = tuple(int(x) for x in np.argwhere(bad)[0])
        raise PropertyViolation(bucket + "/dgamma-inconsistent", "V dgamma/dV at probe %d (q,m)=(%d,%d): returned %r, derivative of the returned gamma %r" % (
            i[0], i[1], i[2], float(dc[i]), float(d1[i])), case)
    # exactness
    exact = c["family"] == "power" or (c["family"] == "poly" and m == "lsq_poly" and deg <= c["order"])
    if exact:
        x = (np.log(grid) - np.log(vref))[:, None, None]
        want_ln = sum(cf * x ** k for k, cf in enumerate(coef))
        want_g = -sum(k * cf * x ** (k - 1) for k, cf in enumerate(coef) if k >= 1)
        want_d = -sum(k * (k - 1) * cf * x ** (k - 2) for k, cf in enumerate(coef) if k >= 2) + 0 * x
        rel = 1e-7 if c["family"] == "power" else 2e-6
        if m in ("lagrange", "lsq_poly"):
            # both solve for monomial coefficients in the uncentred variable ln V (values 5-8, spread ~0.3): the rounding
            # error is amplified by the condition number of that Vandermonde system (cij's own comments call lagrange
            # unstable beyond 6 nodes).  Tolerance: 5 % of eps*cond, never tighter than the base tolerance.
            if m == "lagrange":
                interval = int(np.ceil(c["nv"] / c["order"]))
                xs = np.log(vols[::interval])
                A = np.vander(xs, len(xs))
            else:
                A = np.vander(np.log(vols), c["order"] + 1)
            rel = max(rel, 0.05 * np.finfo(float).eps * np.linalg.cond(A))
        if np.max(np.abs(lnf - want_ln)[:, mask]) > rel:
            raise PropertyViolation(bucket + "/not-exact/frequency", "interpolant is not exact for %s data (max dev %.3g in ln omega)" % (
                c["family"], float(np.max(np.abs(lnf - want_ln)[:, mask]))), case)
        if np.max(np.abs(g - want_g)[:, mask]) > rel * 10:
            raise PropertyViolation(bucket + "/not-exact/gamma", "gamma is not exact for %s data (max dev %.3g)" % (
                c["family"], float(np.max(np.abs(g - want_g)[:, mask]))), case)
        if np.max(np.abs(d - np.broadcast_to(want_d, d.shape))[:, mask]) > rel * 1000:
            raise PropertyViolation(bucket + "/not-exact/dgamma", "V dgamma/dV is not exact for %s data (max dev %.3g)" % (
                c["family"], float(np.max(np.abs(d - np.broadcast_to(want_d, d.shape))[:, mask]))), case)
    # (q,m) not mixed: permute q-points 1.. and modes, outputs permute accordingly
    prng = np.random.default_rng(c["seed"] ^ 0x1234)
    qperm = [0] + list(1 + prng.permutation(nq - 1))
    mperm = [[0, 1, 2] + list(3 + prng.permutation(npm - 3))] + [list(prng.permutation(npm)) for _ in range(nq - 1)]
    freqs2 = np.empty_like(freqs)
    for jq, src in enumerate(qperm):
        freqs2[:, jq, :] = freqs[:, src, :][:, mperm[jq]]
    pg = np.exp(lp)
    f0, g0, d0 = call(ctx, qin, pg, c, case)
    f2, g2_, d2_ = call(ctx, make_input(vols, freqs2), pg, c, case)
    for a, b, name in ((f0, f2, "frequency"), (g0, g2_, "gamma"), (d0, d2_, "dgamma")):
        for jq, src in enumerate(qperm):
            want = a[:, src, :][:, mperm[jq]]
            got = b[:, jq, :]
            scl = np.max(np.abs(a)) + 1e-300
            if np.max(np.abs(got - want)) > 1e-9 * scl:
                raise PropertyViolation(bucket + "/modes-mixed", "%s of q-point %d changes when q-points/modes are listed in another order" % (name, jq), case)
    # single-mode call agrees
    jq, jm = (nq - 1, npm - 1)
    fs = np.zeros((len(vols), 1, 6))
    fs[:, 0, 3] = freqs[:, jq, jm]
    fs[:, 0, 4] = freqs[:, jq, jm] * 1.5
    fs[:, 0, 5] = freqs[:, jq, jm] * 2.0
    f3, g3, d3 = call(ctx, make_input(vols, fs), pg, c, case)
    if (np.max(np.abs(f3[:, 0, 3] - f0[:, jq, jm])) > 1e-9 * np.max(np.abs(f0)) or np.max(np.abs(g3[:, 0, 3] - g0[:, jq, jm])) > 1e-9 * (np.max(np.abs(g0)) + 1)):
        raise PropertyViolation(bucket + "/modes-mixed", "mode (%d,%d) differs from the same mode interpolated alone" % (jq, jm), case)
    outside = bool(np.any((lp < np.log(vols.min())) | (lp > np.log(vols.max()))))
    return {"outside": outside, "exact": exact}


def sub_consistency(ctx):
    methods = [m for m in METHODS if not ctx.is_excluded("C11/method=%s" % m, count=False)]
    if not methods:
        return
    # stratify methods over shards so that each method is exercised whatever the per-shard example count
    mine = [methods[(ctx.shard + k) % len(methods)] for k in range(max(1, (len(methods) + ctx.nshards - 1) // ctx.nshards))] if ctx.nshards > 1 else methods
    for m in sorted(set(mine)):
        def body(c):
            try:
                info = oracle(ctx, c)
            except PropertyViolation as v:
                raise PropertyViolation("C11/method=%s" % c["method"], v.bucket + ": " + v.message, v.case)
            nt = c["family"] != "power" or info["outside"] or c["nq"] > 1
            ctx.case(c, nt, classes=["method-" + c["method"], "family-" + c["family"], "probe-outside" if info["outside"] else "probe-inside",
                                      "exactness-checked" if info["exact"] else "consistency-only"])

        ctx.run_given(body, cases([m]), max_examples=max(4, ctx.n(7 * 60, 7 * 3000) // max(1, len(set(mine)))), name="consistency-" + m)
    for m in METHODS:
        if m not in methods:
            ctx.stats.skip("C11/method=%s" % m)


# ---------------------------------------------------------------------------------------------------------
class RecordingAxes:
    def __init__(self):
        self.plots = []
        self.scatters = []

    def plot(self, x, y, *a, **k):
        self.plots.append((np.array(x, dtype=float), np.array(y, dtype=float)))

    def scatter(self, x, y, *a, **k):
        self.scatters.append((np.array(x, dtype=float), np.array(y, dtype=float)))


def plot_oracle(ctx, s, case=None):
    import cij.core.calculator as cc
    from cij.plot import ModePlotter
    case = case or s
    ds = Dataset(s)
    r = place_pressures(ds)
    if r is None:
        return None
    with Workdir() as wd, warnings.catch_warnings(), np.errstate(all="ignore"):
        warnings.simplefilter("ignore")
        path, cfg = materialise(ds, wd, r[0])
        calc = ctx.observe(cc.Calculator, path, _bucket="C11/plot/crash", _case=case)
        V = np.array(calc.v_array, dtype=float)
        truth = {0: ds.nu(V), 1: ds.gamma(V), 2: ds.dgamma(V)}
        plotter = ModePlotter(calc)
        for n in (0, 1, 2):
            for iq in range(ds.nq):
                if ctx.is_excluded("C11/plot/n=%d" % n):
                    continue
                ax = RecordingAxes()
                ctx.observe(plotter.plot_modes, ax, n, iq, _bucket="C11/plot/crash", _case=case)
                want = truth[n][:, iq, :]
                cols = [k for k in range(ds.npm) if not (iq == 0 and k < 3)]
                if len(ax.plots) != len(cols):
                    raise PropertyViolation("C11/plot/curve-count", "n=%d iq=%d: %d curves drawn, %d non-acoustic modes" % (
                        n, iq, len(ax.plots), len(cols)), case)
                if not cols:
                    continue
                sc = np.max(np.abs(want[:, cols])) + (1.0 if n else 0.0)
                for (x, y), k in zip(ax.plots, cols):
                    tol = (2e-6 if n < 2 else 2e-4) * sc
                    if y.shape != want[:, k].shape or np.max(np.abs(y - want[:, k])) > tol:
                        what = {0: "omega", 1: "gamma", 2: "V dgamma/dV"}[n]
                        raise PropertyViolation("C11/plot/n=%d" % n, "n=%d draws something else than %s for (q,m)=(%d,%d): max deviation %.3g (scale %.3g)" % (
                            n, what, iq, k, float(np.max(np.abs(y - want[:, k]))) if y.shape == want[:, k].shape else float("nan"), sc), case)
                    if np.max(np.abs(x - V * 0.14818471147216278)) > 1e-6 * np.max(V):
                        raise PropertyViolation("C11/plot/x-axis", "curves are not drawn against the volume grid in A^3", case)
    return True


@st.composite
def plot_cases(draw):
    s = draw(dataset_specs(max_nq=3, max_na=2, max_nt=1, interpolators=["lsq_poly"], families=("poly2", "poly3")))
    # also the smallest admissible order: an interpolant linear in ln V, whose third quantity is identically zero
    s["order"] = draw(st.sampled_from([1, 2, 3, 3]))
    s["family"] = draw(st.sampled_from(["power", "poly2", "poly3"][:s["order"]]))
    if s["nv"] < 5:
        s["nv"] = 5
    return s


def sub_plot(ctx):
    def body(s):
        ok = plot_oracle(ctx, s)
        if ok is None:
            ctx.stats.skip("unusable-dataset")
            return
        ctx.case(s, True, classes=["plot", "plot-order-%d" % s["order"], "plot-family-" + s["family"]])

    ctx.run_given(body, plot_cases(), max_examples=ctx.n(28, 600), shrink=not ctx.quick)


def subchecks(ctx):
    return [("consistency", sub_consistency), ("plot", sub_plot)]


def replay(ctx, payload):
    c = payload["case"]
    if payload.get("subcheck") == "plot" or "method" not in c:
        plot_oracle(ctx, c)
        return
    try:
        oracle(ctx, c)
    except PropertyViolation as v:
        raise PropertyViolation("C11/method=%s" % c["method"], v.bucket + ": " + v.message, v.case)
