"""C07 - VRH averages, bounds and velocities are those of the full tensor in SI units.

Oracle: Voigt/Reuss/Hill from the rank-4 tensor via the Mandel matrix (vcij.reftensor), own SI constants,
applied to the observed adiabatic tensor wherever it is positive definite (own eigvalsh).
"""
import warnings

import numpy as np
from hypothesis import strategies as st

from .. import PropertyViolation, refphys
from ..datasets import Dataset, Workdir, dataset_specs, materialise, place_pressures
from ..reftensor import KEYS21, compliance_tensor, is_positive_definite, tensor_from_keys, voigt_compliance_from_tensor, vrh

ID = "C07"
SHARDS = {"quick": 16, "thorough": 16}
RULE = ("Hypothesis draws data sets whose static tensor is a random positive-definite tensor of one of nine systems, with the "
        "nine orthotropic columns always present and a drawn subset of the others (or a sufficient subset + filling), cell mass "
        "5-1500 g/mol; every (T,V) grid point with a positive-definite adiabatic tensor is compared; non-trivial = non-cubic "
        "tensor (c13!=c23 or c44!=c55) with a non-zero non-orthotropic component, or a softened case: a constant shift of static columns (two "
        "probe runs, the total is affine in the table) puts one grid point next to a stability limit - a shear constant of 1e-7..1e-4 of "
        "the stiff ones (condition number up to 1e7) or a bulk instability between the isothermal and the adiabatic tensor; distinct by the drawn spec")
ASSUMPTIONS = [
    "CODATA 2018 constants typed in (N_A, Bohr radius, Rydberg); tolerance 1e-7 relative covers pint's revision",
    "absent s_ij attributes mean zero compliance",
]
ORTHO = [(1, 1), (2, 2), (3, 3), (1, 2), (1, 3), (2, 3), (4, 4), (5, 5), (6, 6)]


@st.composite
def cases(draw):
    s = draw(dataset_specs(max_nq=2, max_na=2, max_nt=3, keys_mode="ortho9+", interpolators=["lsq_poly"]))
    s["order"] = min(s["order"], 3)
    s["touch_first"] = draw(st.sampled_from(["nothing", "s11t", "c11t", "pressure_base"]))     # API calls made before the averages are read
    if draw(st.integers(0, 3)) == 0:
        # low-symmetry table listing the nine orthotropic constants and only one or two isolated couplings (e.g. c35, c46)
        s["system"] = draw(st.sampled_from(["triclinic", "monoclinic"]))
        s["apply_system"] = False
        s["keys_mode"] = "ortho9+sparse"
    # positive definite but close to a stability limit at one grid point: a shear constant of 1e-7..1e-4 of the stiff ones
    # (condition number up to 1e7), or a bulk instability placed between the isothermal and the adiabatic tensor
    s["soften"] = draw(st.sampled_from([None, None, None, "shear", "dilatational"]))
    s["soften_at"] = [draw(st.floats(0.0, 1.0)), draw(st.floats(0.0, 1.0))]
    s["soften_eps"] = draw(st.sampled_from([1e-7, 1e-6, 3e-5, 1e-4]))
    s["soften_key"] = draw(st.sampled_from([4, 5, 6]))
    if s["soften"]:
        s["system"] = draw(st.sampled_from(["orthorhombic", "hexagonal", "cubic"]))
        s["apply_system"] = False
        s["keys_mode"] = "ortho9+"
    return s


def _tensors(ds, qs):
    import cij.core.calculator as cc
    with Workdir() as wd, warnings.catch_warnings(), np.errstate(all="ignore"):
        warnings.simplefilter("ignore")
        path, cfg = materialise(ds, wd, qs)
        calc = cc.Calculator(path)
        adi = {tuple(k.voigt): np.array(v, dtype=float) for k, v in calc.volume_base.modulus_adiabatic.items()}
        iso = {tuple(k.voigt): np.array(v, dtype=float) for k, v in calc.volume_base.modulus_isothermal.items()}
        return adi, iso, np.array(calc.t_array, dtype=float)


def soften(s, ds, qs):
    """Shift static columns by a constant so that the tensor at one grid point sits next to a stability limit.  The
    total modulus is affine in the tabulated values, so two probe runs determine the shift.  Returns a class tag or None."""
    from ..reftensor import mandel
    LONG = [(1, 1), (2, 2), (3, 3), (1, 2), (1, 3), (2, 3)]
    try:
        adi, iso, T = _tensors(ds, qs)
    except Exception:
        return None
    nt, ntv = adi[(1, 1)].shape
    it = int(round(s["soften_at"][0] * (nt - 1)))
    iv = int(round(s["soften_at"][1] * (ntv - 1)))
    if s["soften"] == "dilatational" and T[it] == 0:
        it = nt - 1
    if not all(np.isfinite(v[it, iv]) for v in list(adi.values()) + list(iso.values())):
        return None
    pt = lambda d: mandel(tensor_from_keys({k: v[it:it + 1, iv:iv + 1] for k, v in d.items()}, shape=(1, 1)))[0, 0]
    MS, MT = pt(adi), pt(iso)
    if np.min(np.linalg.eigvalsh(MS)) <= 0 or np.min(np.linalg.eigvalsh(MT)) <= 0:
        return None
    cmax = float(np.max(np.abs(MS)))
    if s["soften"] == "shear":
        k = (s["soften_key"], s["soften_key"])
        cols = [k]
        delta = adi[k][it, iv] - s["soften_eps"] * cmax              # a.u.; total = a + b*shift with b ~ 1
        probe = lambda a, i: a[k][it, iv]
    else:
        cols = LONG
        J = np.zeros((6, 6))
        J[:3, :3] = 1.0
        f = lambda M, d: float(np.min(np.linalg.eigvalsh(M - d * J)))
        lo, hi = 0.0, 3.0 * cmax
        for _ in range(200):                                          # shift at which lambda_min(S) = -lambda_min(T)
            mid = 0.5 * (lo + hi)
            if f(MS, mid) + f(MT, mid) > 0:
                lo = mid
            else:
                hi = mid
        delta = 0.5 * (lo + hi)
        if not (f(MS, delta) > 0 > f(MT, delta)):
            return None
        probe = lambda a, i: a[(1, 2)][it, iv]
    base = ds.static_full.copy()
    idx = [KEYS21.index(k) for k in cols]
    x0 = probe(adi, iso)
    ds.static_full = base.copy()
    ds.static_full[:, idx] -= delta * refphys.AU_TO_GPA
    try:
        adi1, iso1, _ = _tensors(ds, qs)
    except Exception:
        ds.static_full = base
        return None
    b = (x0 - probe(adi1, iso1)) / delta
    if not (0.5 < b < 2.0):
        ds.static_full = base
        return None
    ds.static_full = base.copy()
    ds.static_full[:, idx] -= delta / b * refphys.AU_TO_GPA
    return "soften-" + s["soften"]


def oracle(ctx, s, ds, qs, case):
    import cij.core.calculator as cc
    with Workdir() as wd, warnings.catch_warnings(), np.errstate(all="ignore"):
        warnings.simplefilter("ignore")
        path, cfg = materialise(ds, wd, qs)
        calc = ctx.observe(cc.Calculator, path, _bucket="C07/crash", _case=case)
        vb = calc.volume_base
        # other read-only API calls made first must not change the averages
        touch = s.get("touch_first", "nothing")
        try:
            if touch == "s11t":
                getattr(vb, "s11t"), getattr(vb, "s_12t"), getattr(vb, "s44t")
            elif touch == "c11t":
                getattr(vb, "c11t"), getattr(vb, "c_1122t")
            elif touch == "pressure_base":
                calc.pressure_base.bulk_modulus_voigt_reuss_hill
        except (AttributeError, ValueError):
            pass
        adi = {tuple(k.voigt): np.array(v, dtype=float) for k, v in vb.modulus_adiabatic.items()}
        iso_obs = {tuple(k.voigt): np.array(v, dtype=float) for k, v in vb.modulus_isothermal.items()}
        V = np.array(calc.v_array, dtype=float)
        names = {"KV": "bulk_modulus_voigt", "KR": "bulk_modulus_reuss", "K": "bulk_modulus_voigt_reuss_hill",
                 "GV": "shear_modulus_voigt", "GR": "shear_modulus_reuss", "G": "shear_modulus_voigt_reuss_hill"}
        got = {k: np.array(ctx.observe(getattr, vb, n, _bucket="C07/crash", _case=case), dtype=float) for k, n in names.items()}
        vp = np.array(ctx.observe(getattr, vb, "primary_velocities", _bucket="C07/crash", _case=case), dtype=float)
        vs = np.array(ctx.observe(getattr, vb, "secondary_velocities", _bucket="C07/crash", _case=case), dtype=float)
        S_obs = {}
        for (I, J) in KEYS21:
            try:
                S_obs[(I, J)] = np.array(getattr(vb, "s%d%d" % (I, J)), dtype=float)
            except AttributeError:
                S_obs[(I, J)] = None
    nt, ntv = next(iter(adi.values())).shape
    fin = np.all(np.isfinite(np.stack(list(adi.values()))), axis=0)
    C = tensor_from_keys({k: np.where(fin, v, 0.0) for k, v in adi.items()}, shape=(nt, ntv))
    for i in range(3):
        C[~fin, i, i, i, i] = 1.0
    pd = is_positive_definite(C) & fin
    if not np.any(pd):
        return None
    from ..reftensor import tensor_from_mandel
    ident = tensor_from_mandel(np.eye(6))
    C = np.where(pd[..., None, None, None, None], C, ident)          # harmless placeholder where nothing is claimed
    with np.errstate(all="ignore"):
        ref = vrh(C)
        Sv = voigt_compliance_from_tensor(compliance_tensor(C))
    # 1e-7 relative, widened where the tensor is so close to singular that the inverse itself (any algorithm, 53-bit
    # floats) is uncertain: relative error of an inverse ~ condition number x 2.2e-16, amplified once more by the
    # cancellation in 1/S_iijj and 15/(6 S_ijij - 2 S_iijj)
    from ..reftensor import mandel as _mandel
    _ev = np.linalg.eigvalsh(_mandel(C))
    with np.errstate(all="ignore"):
        cond = np.where(pd, _ev[..., -1] / _ev[..., 0], 1.0)
    rel = np.maximum(1e-7, 200 * 2.2e-16 * cond)

    def cmp(name, a, b, bucket):
        if a.shape != b.shape:
            raise PropertyViolation(bucket + "/shape", "%s has shape %r, the grid is %r" % (name, a.shape, b.shape), case)
        sc = np.max(np.abs(b[pd]))
        bad = pd & ~(np.abs(a - b) <= rel * np.maximum(sc * 1e-7 / rel, np.abs(b)))
        if a.shape != b.shape or np.any(bad):
            idx = tuple(int(x) for x in np.argwhere(bad)[0])
            raise PropertyViolation(bucket, "%s at %r: code %r, reference %r" % (name, idx, float(a[idx]), float(b[idx])), case)

    cmp("K_Voigt", got["KV"], ref["KV"], "C07/voigt-bulk")
    cmp("G_Voigt", got["GV"], ref["GV"], "C07/voigt-shear")
    cmp("K_Reuss", got["KR"], ref["KR"], "C07/reuss-bulk")
    cmp("G_Reuss", got["GR"], ref["GR"], "C07/reuss-shear")
    cmp("K_VRH", got["K"], (got["KV"] + got["KR"]) / 2, "C07/hill-mean")
    cmp("G_VRH", got["G"], (got["GV"] + got["GR"]) / 2, "C07/hill-mean")
    cmp("K_VRH", got["K"], ref["K"], "C07/hill-bulk")
    cmp("G_VRH", got["G"], ref["G"], "C07/hill-shear")
    eps = 1e-9
    for a, b, c, nm in ((got["KR"], got["K"], got["KV"], "bulk"), (got["GR"], got["G"], got["GV"], "shear")):
        sc = np.max(np.abs(c[pd]))
        if np.any(pd & ((a > b + eps * sc) | (b > c + eps * sc))):
            raise PropertyViolation("C07/bounds", "Reuss <= Hill <= Voigt violated for the %s modulus" % nm, case)
    # compliances: reported S is the inverse of the reported stiffness
    smax = max(float(np.max(np.abs(v[pd]))) for v in Sv.values())
    for k, want in Sv.items():
        have = S_obs[k]
        if have is None:
            if np.max(np.abs(want[pd])) > 1e-6 * smax and np.max(np.abs(want[fin])) > 2e-8:
                raise PropertyViolation("C07/compliance-missing", "s%d%d absent although it is %.3g (max %.3g)" % (
                    k[0], k[1], float(np.max(np.abs(want[pd]))), smax), case)
            continue
        if have.shape != want.shape:
            raise PropertyViolation("C07/compliance-shape", "s%d%d has shape %r, the grid is %r" % (k[0], k[1], have.shape, want.shape), case)
        bad = pd & ~(np.abs(have - want) <= 1e-8 * smax)
        if np.any(bad):
            idx = tuple(int(x) for x in np.argwhere(bad)[0])
            raise PropertyViolation("C07/compliance", "s%d%d at %r: code %r, inverse of the reported stiffness %r" % (
                k[0], k[1], idx, float(have[idx]), float(want[idx])), case)
    # velocities in km/s
    mass_kg = s["cellmass"] * 1e-3 / refphys.NA
    rho = mass_kg / (V * refphys.A0_M ** 3)                      # kg / m^3
    to_pa = refphys.RY_J / refphys.A0_M ** 3
    with np.errstate(all="ignore"):
        want_vs = np.sqrt(ref["G"] * to_pa / rho[None, :]) / 1e3
        want_vp = np.sqrt((ref["K"] + 4.0 / 3.0 * ref["G"]) * to_pa / rho[None, :]) / 1e3
    cmp("v_s", vs, want_vs, "C07/velocity-s")
    cmp("v_p", vp, want_vp, "C07/velocity-p")
    keys = sorted(adi)
    noncubic = bool(np.any(np.abs(adi[(1, 3)] - adi[(2, 3)])[pd] > 1e-9) or np.any(np.abs(adi[(4, 4)] - adi[(5, 5)])[pd] > 1e-9))
    nonortho = any(k not in ORTHO and np.any(np.abs(adi[k][pd]) > 1e-9) for k in keys)
    from ..reftensor import mandel
    ev = np.linalg.eigvalsh(mandel(C))
    cond_max = float(np.max((ev[..., -1] / ev[..., 0])[pd]))
    with np.errstate(all="ignore"):
        Ct = tensor_from_keys({k: np.where(np.isfinite(v), v, 0.0) for k, v in iso_obs.items()}, shape=(nt, ntv))
        band = int(np.sum(pd & ~is_positive_definite(Ct)))
    return {"points": int(pd.sum()), "noncubic": noncubic, "nonortho": nonortho, "keys": keys, "cond_max": cond_max, "band": band}


def build(s):
    ds = Dataset(s)
    r = place_pressures(ds)
    qs = r[0] if r else None
    if qs is not None and s.get("soften"):
        s["_softened"] = soften(s, ds, qs)
    return ds, qs


def sub_vrh(ctx):
    def body(s):
        s = dict(s)
        ds, qs = build(s)
        if qs is None:
            ctx.stats.skip("unusable-dataset")
            return
        tag = s.pop("_softened", None)
        info = oracle(ctx, s, ds, qs, s)
        if info is None:
            ctx.stats.skip("no-positive-definite-point")
            return
        ctx.case(s, (info["noncubic"] and info["nonortho"]) or info["cond_max"] > 1e5 or info["band"] > 0,
                 classes=["system-" + s["system"], "fill" if s["apply_system"] else "no-fill", "touched-first-" + s.get("touch_first", "nothing"),
                          "noncubic" if info["noncubic"] else "cubic-like", "nonorthotropic" if info["nonortho"] else "orthotropic",
                          "condition>1e5" if info["cond_max"] > 1e5 else "condition<=1e5",
                          "adiabatic-PD/isothermal-not-PD-points" if info["band"] > 0 else "no-such-band"] + ([tag] if tag else []))

    ctx.run_given(body, cases(), max_examples=ctx.n(160, 5000), shrink=not ctx.quick)


def subchecks(ctx):
    return [("vrh", sub_vrh)]


def replay(ctx, payload):
    s = dict(payload["case"])
    ds, qs = build(s)
    s.pop("_softened", None)
    if qs is not None:
        oracle(ctx, s, ds, qs, s)
