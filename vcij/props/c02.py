"""C02 - adiabatic - isothermal gap = T V (dP/dT)^2 / (9 e_i e_j C_V); zero for shear and at T=0.

Differential oracle: dP_ph/dT = -d2F/dTdV of the reference free energy (vcij.refphys, mixed 5x7-point
stencil in 80-bit floats) against `.value_adiabatic - .value_isothermal` of the non-shear contribution
classes on a duck-typed calculator; shear clause through PhononContributionTaskList.
"""
import warnings

import numpy as np
from hypothesis import strategies as st

from .. import PropertyViolation
from ..duck import DuckCalculator, build_duck_spec, duck_specs
from ..refphys import free_energy_derivs
from ..stats import jsonable

ID = "C02"
SHARDS = {"quick": 8, "thorough": 16}
RULE = ("as C01 plus a positive heat-capacity field 1e-8..1e-2 a.u. (1e-14..1e-2 in a third of the cases); shear clause: task list on a duck calculator "
        "with a generic strain field (ntv x 3) and one of the 15 shear keys; both values are read again from the same object; non-trivial = T>0 with gap > 1e-6 |c|, "
        "off-diagonal with |e_i-e_j|>0.05, or shear case whose non-shear dependencies have a non-zero gap")
ASSUMPTIONS = [
    "dP/dT from the numerically differentiated reference free energy (5-point in T x 7-point in V, per-mode steps)",
    "heat capacity is the field handed over by the (duck) QHA layer, arbitrary positive",
]

REL = 1e-7

SHEAR_KEYS = ["44", "55", "66", "14", "15", "16", "24", "25", "26", "34", "35", "36", "45", "46", "56"]


@st.composite
def cases(draw):
    s = draw(duck_specs(long_grids=True))
    ntv = s["ntv"]
    kind = draw(st.sampled_from(["longitudinal", "offdiagonal"]))
    ei = draw(st.lists(st.floats(0.05, 0.9), min_size=ntv, max_size=ntv))
    ej = list(ei) if kind == "longitudinal" else draw(st.lists(st.floats(0.05, 0.9), min_size=ntv, max_size=ntv))
    if kind == "offdiagonal" and draw(st.integers(0, 4)) == 0:
        # an axis that expands under compression (negative linear compressibility) has a negative strain fraction:
        # the relation then gives a negative gap for the off-diagonal components that involve it
        ej = [-x for x in ej]
    return dict(s, kind=kind, ei=ei, ej=ej, adiabatic_first=draw(st.booleans()))


def oracle(ctx, full):
    from cij.core.phonon_contribution.nonshear import (
        LongitudinalElasticModulusPhononContribution as Lon,
        OffDiagonalElasticModulusPhononContribution as Off)
    case = full.get("_case")
    ei = np.array(full["ei"], dtype=float)
    ej = np.array(full["ej"], dtype=float)
    T = np.array(full["T"], dtype=float)
    V = np.array(full["V"], dtype=float)
    cv = np.array(full["cv"], dtype=float)
    ref = free_energy_derivs(full["nu"], full["gam"], full["g"], full["weights"], T, V)
    duck = DuckCalculator(full)
    with warnings.catch_warnings(), np.errstate(all="ignore"):
        warnings.simplefilter("ignore")
        cls = Lon if full["kind"] == "longitudinal" else Off
        obj = ctx.observe(cls, duck, (ei, ej), _bucket="C02/ctor", _case=case)
        if full.get("adiabatic_first"):
            # the order in which the two values are read from one object must not matter
            adi = ctx.observe(lambda: np.array(obj.value_adiabatic), _bucket="C02/adi-crash", _case=case)
            iso = ctx.observe(lambda: np.array(obj.value_isothermal), _bucket="C02/iso-crash", _case=case)
            fresh = cls(DuckCalculator(full), (ei, ej))
            iso_fresh = np.array(fresh.value_isothermal)
            if not np.array_equal(iso, iso_fresh, equal_nan=True):
                raise PropertyViolation("C02/%s/read-order" % full["kind"], "isothermal value read after the adiabatic one differs from a fresh object's", case)
        else:
            iso = ctx.observe(lambda: np.array(obj.value_isothermal), _bucket="C02/iso-crash", _case=case)
            adi = ctx.observe(lambda: np.array(obj.value_adiabatic), _bucket="C02/adi-crash", _case=case)
        # a second reading of either value from the same object returns the same numbers
        for nm, first in (("value_adiabatic", adi), ("value_isothermal", iso), ("value_adiabatic", adi)):
            again = np.array(getattr(obj, nm))
            if again.shape != first.shape or not np.array_equal(first, again, equal_nan=True):
                raise PropertyViolation("C02/%s/changed-by-reading" % full["kind"], "%s read a second time differs from its first reading (max change %.3g)" % (
                    nm, float(np.nanmax(np.abs(first - again))) if again.shape == first.shape else float("nan")), case)
    gap = adi - iso
    want = T[:, None] * V[None, :] * ref["dPdT"] ** 2 / (9 * (ei * ej)[None, :] * cv)
    scale = T[:, None] * V[None, :] * ref["dPdT_abs"] ** 2 / (9 * np.abs(ei * ej)[None, :] * cv)
    # the gap is observed as a difference of two O(|c|) numbers
    tol = 2 * REL * scale + 8 * np.finfo(float).eps * np.maximum(np.abs(adi), np.abs(iso)) + 1e-300
    bad = ~(np.abs(gap - want) <= tol)
    if np.any(bad):
        idx = tuple(int(i) for i in np.argwhere(bad)[0])
        raise PropertyViolation("C02/%s/gap" % full["kind"], "gap at %r: code %r, reference %r (tol %.3g)" % (
            idx, float(gap[idx]), float(want[idx]), float(tol[idx])), case)
    if full["kind"] == "longitudinal" and np.any(gap < -8 * np.finfo(float).eps * np.abs(iso)):
        raise PropertyViolation("C02/longitudinal/negative-gap", "diagonal gap negative with C_V>0", case)
    z = T == 0
    if np.any(z) and not np.all(adi[z, :] == iso[z, :]):
        raise PropertyViolation("C02/gap-nonzero-at-T0", "adiabatic != isothermal at T=0", case)
    return gap, iso


def sub_gap(ctx):
    def body(s):
        full = build_duck_spec(s)
        full["_case"] = jsonable({k: v for k, v in full.items() if k != "_case"})
        gap, iso = oracle(ctx, full)
        T = np.asarray(full["T"])
        big = bool(np.any((T[:, None] > 0) & (np.abs(gap) > 1e-6 * np.abs(iso))))
        offd = full["kind"] == "offdiagonal" and bool(np.any(np.abs(np.array(full["ei"]) - np.array(full["ej"])) > 0.05))
        cl = [full["kind"]]
        if big:
            cl.append("gap>1e-6|c|")
        if offd:
            cl.append("offdiag |ei-ej|>0.05")
        if np.any(T == 0):
            cl.append("T=0 present")
        if full["ej"][0] < 0:
            cl.append("negative-strain-fraction")
        if len(T) > 64:
            cl.append("long-T-grid(>64)")
        ctx.case({k: (s[k] if k != "T" or len(s["T"]) <= 8 else {"n": len(s["T"]), "first": s["T"][0], "last": s["T"][-1]}) for k in ("nq", "na", "ntv", "T", "seed", "kind", "ei", "ej")}, big and (offd or full["kind"] == "longitudinal"), classes=cl)

    ctx.run_given(body, cases(), max_examples=ctx.n(2000, 100000))


# ------------------------------------------------------------------------------------------------------
@st.composite
def shear_cases(draw):
    s = draw(duck_specs(max_nq=3, max_na=3, max_ntv=3, max_nt=4))
    ntv = s["ntv"]
    key = draw(st.sampled_from(SHEAR_KEYS))
    # strain field: positive axial strains; pairwise differences either exactly 0 or > 1e-3 relative
    rows = []
    for _ in range(ntv):
        a = draw(st.floats(0.1, 1.0))
        b = draw(st.one_of(st.just(a), st.floats(0.1, 1.0)))
        c = draw(st.one_of(st.just(a), st.just(b), st.floats(0.1, 1.0)))
        rows.append([a, b, c])
    rows = _separate(rows)
    return dict(s, key=key, strain=rows)


def _separate(rows, tol=2e-3):
    """Make strain fractions either exactly equal or separated by > tol (the scheduler merges tasks
    whose normalised fractions agree to ~1e-5 by design)."""
    out = []
    for r in rows:
        r = list(r)
        for i in range(3):
            for j in range(i):
                if r[i] != r[j] and abs(r[i] - r[j]) < tol * 3:
                    r[i] = r[j]
        out.append(r)
    return out


def shear_oracle(ctx, full):
    from cij.core.tasks import PhononContributionTaskList
    import cij.util as U
    case = full.get("_case")
    duck = DuckCalculator(full)
    strain = np.array(full["strain"], dtype=float)
    key = U.c_(full["key"])
    T = np.array(full["T"], dtype=float)
    with warnings.catch_warnings(), np.errstate(all="ignore"):
        warnings.simplefilter("ignore")
        tl = PhononContributionTaskList(duck)
        deps = [U.c_(k) for k in ("11", "22", "33", "12", "13", "23")]
        ctx.observe(tl.resolve, strain, [key] + deps, _bucket="C02/shear/resolve", _case=case)
        ctx.observe(tl.calculate, _bucket="C02/shear/calculate", _case=case)
        iso = ctx.observe(tl.get_isothermal_results, _bucket="C02/shear/results", _case=case)
        adi = ctx.observe(tl.get_adiabatic_results, _bucket="C02/shear/results", _case=case)
    a = np.asarray(adi[key])
    i = np.asarray(iso[key])
    if a.shape != (len(T), strain.shape[0]) or i.shape != a.shape:
        raise PropertyViolation("C02/shear/shape", "shear result shape %r" % (a.shape,), case)
    if not np.array_equal(a, i):
        raise PropertyViolation("C02/shear/adiabatic-differs", "adiabatic != isothermal for shear key %s" % full["key"], case)
    if not np.all(np.isfinite(np.asarray(i, dtype=complex))):
        raise PropertyViolation("C02/shear/nonfinite", "shear value not finite", case)
    depgap = max(float(np.max(np.abs(np.asarray(adi[d]) - np.asarray(iso[d])))) for d in deps)
    return depgap


def sub_shear(ctx):
    def body(s):
        full = build_duck_spec(s)
        full["_case"] = jsonable({k: v for k, v in full.items() if k != "_case"})
        depgap = shear_oracle(ctx, full)
        T = np.asarray(full["T"])
        ctx.case({k: s[k] for k in ("nq", "na", "ntv", "T", "seed", "key", "strain")},
                 bool(depgap > 0 and np.any(T > 0)), classes=["shear-key-" + full["key"]])

    ctx.run_given(body, shear_cases(), max_examples=ctx.n(150, 7500), shrink=not ctx.quick)


def sub_large_grid(ctx):
    """thorough tier, one shard: a spectrum whose non-Gamma q-points are replicated k times with weights divided by k is the
    same physical spectrum; with (nt x ntv x nq x np) beyond 2^25 elements the results must equal those of the small one."""
    if ctx.quick or ctx.shard != 0:
        return
    from cij.core.phonon_contribution.nonshear import (
        LongitudinalElasticModulusPhononContribution as Lon, OffDiagonalElasticModulusPhononContribution as Off)
    import gc
    rng = np.random.default_rng(ctx.seed)
    nt, ntv, nq0, na = 40, 8, 7, 12
    rep = int(np.ceil((2 ** 25 * 1.05) / (nt * ntv * 3 * na * (nq0 - 1))))
    s = {"nq": nq0, "na": na, "ntv": ntv, "T": [0.0] + list(np.linspace(50, 3000, nt - 1)), "seed": int(rng.integers(0, 2 ** 31)),
         "garbage": False, "weights": list(rng.uniform(0.5, 3.0, nq0)), "V": list(np.linspace(900, 700, ntv))}
    full = build_duck_spec(s)
    big = dict(full)
    for k in ("nu", "gam", "g"):
        big[k] = np.concatenate([full[k][:, :1]] + [full[k][:, 1:]] * rep, axis=1)
    big["weights"] = np.concatenate([np.array(full["weights"][:1]), np.tile(np.array(full["weights"][1:]) / rep, rep)])
    big["nq"] = big["nu"].shape[1]
    ei = np.full(ntv, 0.3)
    ej = np.full(ntv, 0.45)
    case = {"large_grid": True, "elements": int(nt * ntv * big["nq"] * 3 * na), "replication": rep, "seed": s["seed"]}
    out = {}
    for tag, spec in (("small", full), ("large", big)):
        with warnings.catch_warnings(), np.errstate(all="ignore"):
            warnings.simplefilter("ignore")
            for cls, nm, e2 in ((Lon, "lon", ei), (Off, "off", ej)):
                obj = cls(DuckCalculator(spec), (ei, e2))
                out[(tag, nm)] = (np.array(obj.value_isothermal), np.array(obj.value_adiabatic))
                del obj
                gc.collect()
    for nm in ("lon", "off"):
        for n, what in ((0, "isothermal"), (1, "adiabatic")):
            a, b = out[("small", nm)][n], out[("large", nm)][n]
            if np.max(np.abs(a - b)) > 1e-9 * np.max(np.abs(a)):
                raise PropertyViolation("C02/large-grid/%s" % what, "%s %s value changes by %.3g relative when every q-point is listed %d times "
                                        "with 1/%d of its weight (%d array elements)" % (nm, what, float(np.max(np.abs(a - b)) / np.max(np.abs(a))),
                                                                                      rep, rep, case["elements"]), case)
    ctx.case(case, True, classes=["large-grid(>2^25 elements)"])


def subchecks(ctx):
    return [("gap", sub_gap), ("shear", sub_shear), ("large_grid", sub_large_grid)]


def replay(ctx, payload):
    case = payload["case"]
    if case.get("large_grid"):
        c2 = type(ctx)(ctx.prop_id, "thorough", ctx.base_seed)
        sub_large_grid(c2)
        return
    full = dict(case)
    for k in ("nu", "gam", "g", "pressures", "static_p", "cv"):
        full[k] = np.array(case[k], dtype=float)
    full["_case"] = case
    if payload.get("subcheck") == "shear" or "key" in case:
        shear_oracle(ctx, full)
    else:
        oracle(ctx, full)
