"""C04 - phonon tensor assembly is complete, request-independent, acyclic, isotropic in the limit,
and covariant under relabelling of the crystal axes.

Metamorphic / differential oracles on PhononContributionTaskList over a duck-typed calculator:
request alone vs. request in company, permuted axes, equal strains; plus a Hypothesis rule-based state
machine over resolve/calculate histories on a long-lived calculator.
"""
import itertools
import warnings

import numpy as np
from hypothesis import strategies as st
from hypothesis.stateful import RuleBasedStateMachine, initialize, invariant, rule

from .. import PropertyViolation
from ..duck import DuckCalculator, build_duck_spec, duck_specs
from ..reftensor import KEYS21, PAIR_OF_VOIGT, canon
from ..stats import jsonable

ID = "C04"
SHARDS = {"quick": 16, "thorough": 16}
RULE = ("Hypothesis draws a subset and order of the 21 keys, a strain field on a rational grid (n/8, classes generic / two "
        "columns equal / all equal, so fractions are equal or well separated), an axis permutation and a small spectrum; the same field is also handed over as an int64 array of whole numbers (only the ratios enter); "
        "non-trivial = the request contains a shear key together with another requested shear key it depends on "
        "(45,46,56,14..36 with 44/55/66) or lists a dependent key before its dependency, or a non-identity axis permutation; "
        "distinct by (keys in order, strain, permutation, seed)")
ASSUMPTIONS = [
    "tolerance 1e-9 * max|c| between runs of the same deterministic arithmetic",
    "node budget: resolve may evaluate at most 20000 task parameters (measured maximum for 21 keys is ~1500)",
]

ALLKEYS = ["%d%d" % k for k in KEYS21]
NODE_BUDGET = 20000


class BudgetExceeded(Exception):
    pass


def run_tasklist(ctx, duck, strain, keys, case, tl=None):
    """resolve + calculate with a node budget; returns (iso, adi, tasklist)."""
    import cij.core.tasks as tasks
    import cij.util as U
    ckeys = [U.c_(k) for k in keys]
    P = tasks.PhononContributionTaskParams
    orig = P.__dict__["create"]
    counter = [0]

    def counting(cls, s, k):
        counter[0] += 1
        if counter[0] > NODE_BUDGET:
            raise BudgetExceeded("more than %d task parameters evaluated in resolve" % NODE_BUDGET)
        return orig.__func__(cls, s, k)

    with warnings.catch_warnings(), np.errstate(all="ignore"):
        warnings.simplefilter("ignore")
        if tl is None:
            tl = tasks.PhononContributionTaskList(duck)
        P.create = classmethod(counting)
        try:
            sarr = np.asarray(strain)
            ctx.observe(tl.resolve, sarr if sarr.dtype.kind == "i" else np.array(strain, dtype=float), ckeys, _bucket="C04/resolve", _case=case)
        finally:
            P.create = orig
        ctx.observe(tl.calculate, _bucket="C04/calculate", _case=case)
        iso = ctx.observe(tl.get_isothermal_results, _bucket="C04/results", _case=case)
        adi = ctx.observe(tl.get_adiabatic_results, _bucket="C04/results", _case=case)
    out_i, out_a = {}, {}
    nt, ntv = len(duck.t_array), len(duck.v_array)
    for k, ck in zip(keys, ckeys):
        for src, dst, nm in ((iso, out_i, "isothermal"), (adi, out_a, "adiabatic")):
            if ck not in src:
                raise PropertyViolation("C04/missing", "requested key %s has no %s value" % (k, nm), case)
            v = np.asarray(src[ck])
            if np.iscomplexobj(v):
                if np.max(np.abs(v.imag)) > 1e-12 * (np.max(np.abs(v.real)) + 1e-300):
                    raise PropertyViolation("C04/complex", "value of %s is complex" % k, case)
                v = v.real
            if v.shape != (nt, ntv):
                raise PropertyViolation("C04/shape", "value of %s has shape %r, grid is %r" % (k, v.shape, (nt, ntv)), case)
            if not np.all(np.isfinite(v)):
                raise PropertyViolation("C04/nonfinite", "value of %s is not finite" % k, case)
            dst[k] = np.array(v, dtype=float)
    return out_i, out_a, tl


def check_order(tl, case):
    """every task is preceded by all tasks equal to its dependencies."""
    import cij.core.tasks as tasks
    P = tasks.PhononContributionTaskParams
    seen = []
    for n, task in enumerate(tl.data):
        for (s, k) in task.get_dependencies():
            p = P.create(s, k)
            if not any(p == q for q in seen):
                raise PropertyViolation("C04/order", "task #%d (%r) precedes its dependency %r" % (n, task.key, k), case)
        seen.append(task.task_params)


def maxabs(d):
    return max([float(np.max(np.abs(v))) for v in d.values()] + [1e-300])


def compare(a, b, keys_a, keys_b, scale, bucket, msg, case, rel=1e-9):
    for ka, kb in zip(keys_a, keys_b):
        if np.max(np.abs(a[ka] - b[kb])) > rel * scale:
            raise PropertyViolation(bucket, "%s: %s vs %s differ by %.3g (scale %.3g)" % (
                msg, ka, kb, float(np.max(np.abs(a[ka] - b[kb]))), scale), case)


NONSHEAR_KEYS = ["11", "22", "33", "12", "13", "23"]


def tensor_scale(ctx, full, strain, case):
    """Natural magnitude of the assembled tensor: the largest non-shear component (shear components are
    differences of these and may be arbitrarily small)."""
    i0, a0, _ = run_tasklist(ctx, DuckCalculator(full), strain, NONSHEAR_KEYS, case)
    return max(maxabs(i0), maxabs(a0))


def permute_key(k, perm):
    """key in the relabelled axes -> key in the old axes; new axis a is old axis perm[a]."""
    I, J = int(k[0]), int(k[1])
    (i, j), (kk, l) = PAIR_OF_VOIGT[I], PAIR_OF_VOIGT[J]
    c = canon(perm[i - 1] + 1, perm[j - 1] + 1, perm[kk - 1] + 1, perm[l - 1] + 1)
    return "%d%d" % c


SHEAR_DEPS = {"45", "46", "56", "14", "15", "16", "24", "25", "26", "34", "35", "36"}


def request_nontrivial(keys):
    ks = list(keys)
    has_dep = any(k in SHEAR_DEPS for k in ks) and any(k in ("44", "55", "66") for k in ks)
    return has_dep


@st.composite
def strain_fields(draw, ntv):
    cls = draw(st.sampled_from(["generic", "two-equal", "all-equal", "near-equal", "mirrored-columns"]))
    rows = []
    if cls == "mirrored-columns":
        # the strain field of one axis over the volume grid is that of another axis read backwards
        a = draw(st.lists(st.integers(1, 24), min_size=max(ntv, 2), max_size=max(ntv, 2), unique=True))[:ntv]
        c = draw(st.lists(st.integers(1, 24), min_size=ntv, max_size=ntv))
        cols = [a, a[::-1], c]
        perm = draw(st.permutations([0, 1, 2]))
        for i in range(ntv):
            rows.append([cols[perm[k]][i] / 8.0 for k in range(3)])
        return cls, rows
    if cls == "near-equal":
        # pseudo-cubic / pseudo-tetragonal cells: axes that differ by 1e-4..1e-3 relative, i.e. 10-100 times the
        # scheduler's own merge tolerance (numpy.allclose, rtol 1e-5): still different tasks
        delta = draw(st.sampled_from([1e-4, 2e-4, 5e-4]))
        for _ in range(ntv):
            a = draw(st.integers(4, 24)) / 8.0
            mult = draw(st.permutations([0, 1, 2]))
            rows.append([a * (1 + delta * m) for m in mult])
        return cls, rows
    for _ in range(ntv):
        a = draw(st.integers(1, 24))
        if cls == "all-equal":
            r = [a, a, a]
        elif cls == "two-equal":
            b = draw(st.integers(1, 24).filter(lambda x: x != a))
            r = draw(st.permutations([a, a, b]))
        else:
            r = draw(st.lists(st.integers(1, 24), min_size=3, max_size=3, unique=True))
        rows.append([x / 8.0 for x in r])
    return cls, rows


@st.composite
def cases(draw):
    s = draw(duck_specs(max_nq=2, max_na=2, max_ntv=3, max_nt=3))
    keys = draw(st.lists(st.sampled_from(ALLKEYS), min_size=1, max_size=21, unique=True))
    cls, strain = draw(strain_fields(s["ntv"]))
    perm = draw(st.permutations([0, 1, 2]))
    return dict(s, keys=keys, strain=strain, strain_class=cls, perm=list(perm))


_alone_cache = {}


def oracle(ctx, full):
    case = full.get("_case")
    duck = DuckCalculator(full)
    keys = full["keys"]
    strain = np.array(full["strain"], dtype=float)
    iso, adi, tl = run_tasklist(ctx, duck, strain, keys, case)           # (a) inside
    check_order(tl, case)                                                # (c)
    scale = tensor_scale(ctx, full, strain, case)
    # The scheduler merges tasks whose strain fractions agree to numpy.allclose's 1e-5 (by design).  Rational-grid
    # strains are either identical or far apart (tolerance 1e-9).  In the near-equal class (axes differing by 1e-4..1e-3)
    # depth-1 rotations produce fractions closer than that tolerance, so results may legitimately move by about
    # |dc/de| * 1e-5 e: tolerance 5e-5 of the tensor scale there.
    rel = 5e-5 if full.get("strain_class") == "near-equal" else 1e-9
    # (b) alone
    for k in keys:
        i1, a1, _ = run_tasklist(ctx, DuckCalculator(full), strain, [k], case)
        compare(iso, i1, [k], [k], scale, "C04/request-dependence", "isothermal %s requested with %r vs alone" % (k, keys), case, rel=rel)
        compare(adi, a1, [k], [k], scale, "C04/request-dependence", "adiabatic %s requested with %r vs alone" % (k, keys), case, rel=rel)
    # reversed order
    i2, a2, tl2 = run_tasklist(ctx, DuckCalculator(full), strain, list(reversed(keys)), case)
    check_order(tl2, case)
    compare(iso, i2, keys, keys, scale, "C04/order-dependence", "request order reversed", case, rel=rel)
    # the same strain field handed over as whole numbers (int64 array; only the ratios e1:e2:e3 enter): same tensor
    s8 = strain * 8.0
    if full.get("strain_class") != "near-equal" and np.all(s8 == np.round(s8)):
        i5, a5, _ = run_tasklist(ctx, DuckCalculator(full), s8.astype(np.int64), keys, case)
        compare(iso, i5, keys, keys, scale, "C04/strain-dtype", "strain field given as an integer array (8 x the fractions)", case, rel=rel)
        compare(adi, a5, keys, keys, scale, "C04/strain-dtype", "strain field given as an integer array (adiabatic)", case, rel=rel)
    # (e) axis relabelling
    perm = full["perm"]
    if perm != [0, 1, 2]:
        strain_p = strain[:, perm]
        keys_old = [permute_key(k, perm) for k in keys]
        i3, a3, _ = run_tasklist(ctx, DuckCalculator(full), strain_p, keys, case)
        i4, a4, _ = run_tasklist(ctx, DuckCalculator(full), strain, keys_old, case)
        compare(i3, i4, keys, keys_old, scale, "C04/axis-relabelling", "axes relabelled by %r" % (perm,), case, rel=rel)
        compare(a3, a4, keys, keys_old, scale, "C04/axis-relabelling", "axes relabelled by %r (adiabatic)" % (perm,), case, rel=rel)
    return iso


def isotropy_oracle(ctx, full):
    """(d) equal axial strains: isotropic tensor."""
    case = full.get("_case")
    duck = DuckCalculator(full)
    ntv = full["ntv"]
    strain = np.array([[r[0]] * 3 for r in full["strain"]], dtype=float)
    order = full["keys_all"]
    iso, adi, _ = run_tasklist(ctx, duck, strain, order, case)
    for res, nm in ((iso, "isothermal"), (adi, "adiabatic")):
        sc = maxabs(res)
        tol = 1e-9 * sc
        for grp in (("11", "22", "33"), ("12", "13", "23"), ("44", "55", "66")):
            for k in grp[1:]:
                if np.max(np.abs(res[k] - res[grp[0]])) > tol:
                    raise PropertyViolation("C04/isotropy/equal-group", "%s: c%s != c%s with equal strains" % (nm, k, grp[0]), case)
        if np.max(np.abs(res["44"] - (res["11"] - res["12"]) / 2)) > tol:
            raise PropertyViolation("C04/isotropy/c44", "%s: c44 != (c11-c12)/2 with equal strains" % nm, case)
        for k in order:
            if k in ("11", "22", "33", "12", "13", "23", "44", "55", "66"):
                continue
            if np.max(np.abs(res[k])) > tol:
                raise PropertyViolation("C04/isotropy/nonzero", "%s: c%s = %.3g with equal strains (scale %.3g)" % (
                    nm, k, float(np.max(np.abs(res[k]))), sc), case)


def _full(s):
    full = build_duck_spec(s)
    full["_case"] = jsonable({k: v for k, v in full.items() if k != "_case"})
    return full


def compact(s):
    return {k: s[k] for k in s if k in ("nq", "na", "ntv", "T", "seed", "keys", "strain", "perm", "strain_class", "keys_all")}


def sub_requests(ctx):
    def body(s):
        full = _full(s)
        oracle(ctx, full)
        nt = request_nontrivial(s["keys"]) or s["perm"] != [0, 1, 2]
        cl = ["strain-" + s["strain_class"], "nkeys=%d" % (1 + 5 * ((len(s["keys"]) - 1) // 5))]
        if request_nontrivial(s["keys"]):
            cl.append("shear-depends-on-requested-shear")
        if s["perm"] != [0, 1, 2]:
            cl.append("axis-permuted")
        ctx.case(compact(s), nt, classes=cl)

    ctx.run_given(body, cases(), max_examples=ctx.n(320, 20000), shrink=not ctx.quick)


@st.composite
def iso_cases(draw):
    s = draw(duck_specs(max_nq=2, max_na=2, max_ntv=3, max_nt=3))
    order = draw(st.permutations(ALLKEYS))
    rows = [[draw(st.integers(1, 24)) / 8.0] * 3 for _ in range(s["ntv"])]
    return dict(s, keys_all=list(order), strain=rows)


def sub_isotropy(ctx):
    def body(s):
        full = _full(s)
        isotropy_oracle(ctx, full)
        ctx.case(compact(s), bool(np.any(np.asarray(s["T"]) > 0)), classes=["isotropic-limit"])

    ctx.run_given(body, iso_cases(), max_examples=ctx.n(48, 2000), shrink=not ctx.quick)


# ---------------------------------------------------------------------------------------------------
def make_machine(ctx):
    class Histories(RuleBasedStateMachine):
        """One long-lived duck calculator; a history of resolve/calculate rounds on fresh or re-used task
        lists.  Invariant: every (strain field, key) ever evaluated keeps its first value."""

        def __init__(self):
            super().__init__()
            self.first = {}
            self.tl = None
            self.duck = None
            self.full = None
            self.log = []

        @initialize(s=duck_specs(max_nq=2, max_na=1, max_ntv=2, max_nt=2),
                    fields=st.lists(st.lists(st.lists(st.integers(1, 24), min_size=3, max_size=3), min_size=2, max_size=2),
                                    min_size=2, max_size=2))
        def init(self, s, fields):
            s = dict(s, ntv=2, V=(s["V"] + [s["V"][-1] * 0.9])[:2])
            self.full = build_duck_spec(s)
            self.duck = DuckCalculator(self.full)
            self.fields = [[[x / 8.0 for x in r] for r in f] for f in fields]
            self.spec = s
            self.scales = [tensor_scale(ctx, self.full, f, None) for f in self.fields]

        def _case(self):
            return jsonable({"history": self.log, "spec": {k: self.spec[k] for k in ("nq", "na", "ntv", "T", "seed", "garbage", "weights", "V")},
                             "fields": self.fields})

        @rule(keys=st.lists(st.sampled_from(ALLKEYS), min_size=1, max_size=8, unique=True),
              field=st.integers(0, 1), reuse=st.booleans())
        def round(self, keys, field, reuse):
            self.log.append({"keys": keys, "field": field, "reuse": reuse})
            case = self._case()
            strain = self.fields[field]
            tl = self.tl if (reuse and self.tl is not None) else None
            iso, adi, self.tl = run_tasklist(ctx, self.duck, strain, keys, case, tl=tl)
            check_order(self.tl, case)
            for k in keys:
                for nm, res in (("T", iso), ("S", adi)):
                    ident = (field, k, nm)
                    if ident in self.first:
                        ref = self.first[ident]
                        sc = self.scales[field]
                        if np.max(np.abs(res[k] - ref)) > 1e-9 * sc:
                            raise PropertyViolation("C04/history-dependence",
                                                    "c%s%s changed after %d rounds" % (k, nm, len(self.log)), case)
                    else:
                        self.first[ident] = res[k]
                        if nm == "T":
                            # first time this (strain field, key) is seen in this history: it must equal what a pristine
                            # calculator object gives for the key requested alone
                            fi, fa, _ = run_tasklist(ctx, DuckCalculator(self.full), strain, [k], case)
                            if (np.max(np.abs(fi[k] - iso[k])) > 1e-9 * self.scales[field]
                                    or np.max(np.abs(fa[k] - adi[k])) > 1e-9 * self.scales[field]):
                                raise PropertyViolation("C04/history-dependence/vs-fresh-calculator",
                                                        "c%s on a calculator that assembled other requests before differs from a fresh calculator" % k, case)
            nt = len(self.log) >= 2 and any(r["reuse"] for r in self.log[1:])
            ctx.case({"history": list(self.log)}, nt, classes=["history-round", "reuse" if reuse else "fresh-list"])

    return Histories


def sub_histories(ctx):
    ctx.run_machine(make_machine(ctx), max_examples=ctx.n(48, 1600), steps=ctx.pick(6, 12), shrink=not ctx.quick)


def subchecks(ctx):
    return [("requests", sub_requests), ("isotropy", sub_isotropy), ("histories", sub_histories)]


def replay(ctx, payload):
    case = payload["case"]
    sub = payload.get("subcheck")
    if sub == "histories" or "history" in case:
        spec = dict(case["spec"])
        full = build_duck_spec(spec)
        duck = DuckCalculator(full)
        first, tl = {}, None
        log = []
        scales = [tensor_scale(ctx, full, f, None) for f in case["fields"]]
        for r in case["history"]:
            log.append(r)
            c = dict(case, history=list(log))
            iso, adi, tl = run_tasklist(ctx, duck, case["fields"][r["field"]], r["keys"], c,
                                        tl=tl if r["reuse"] else None)
            check_order(tl, c)
            for k in r["keys"]:
                for nm, res in (("T", iso), ("S", adi)):
                    ident = (r["field"], k, nm)
                    if ident in first:
                        sc = scales[r["field"]]
                        if np.max(np.abs(res[k] - first[ident])) > 1e-9 * sc:
                            raise PropertyViolation("C04/history-dependence", "c%s%s changed" % (k, nm), c)
                    else:
                        first[ident] = res[k]
                        if nm == "T":
                            fi, fa, _ = run_tasklist(ctx, DuckCalculator(full), case["fields"][r["field"]], [k], c)
                            if (np.max(np.abs(fi[k] - iso[k])) > 1e-9 * scales[r["field"]] or np.max(np.abs(fa[k] - adi[k])) > 1e-9 * scales[r["field"]]):
                                raise PropertyViolation("C04/history-dependence/vs-fresh-calculator", "c%s differs from a fresh calculator" % k, c)
        return
    full = dict(case)
    for k in ("nu", "gam", "g", "pressures", "static_p", "cv"):
        full[k] = np.array(case[k], dtype=float)
    full["_case"] = case
    if "keys_all" in case:
        isotropy_oracle(ctx, full)
    else:
        oracle(ctx, full)
