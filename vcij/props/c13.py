"""C13 - results do not depend on how the same physical data are presented.

Metamorphic oracle: a base data set and a re-presentation of the same physical data (q-points / modes / weights
scale / static columns / static rows / phonon volume blocks) must give the same tensors and pressure-base
quantities to rounding; for re-ordered volume blocks: the same, or an error.
"""
import os
import warnings

import numpy as np
from hypothesis import strategies as st

from .. import PropertyViolation
from ..datasets import Dataset, Workdir, dataset_specs, place_pressures, write_input01, write_input02, write_settings

ID = "C13"
SHARDS = {"quick": 16, "thorough": 16}
RULE = ("data sets as C05 (1-5 q-points, 1-3 atoms; a second stream with 257-770 q-points) and one drawn re-presentation kind: q-points 2..nq permuted with their "
        "weights, modes permuted (any at non-Gamma points, modes >= 4 at Gamma) at every volume, weights times a positive factor (2 .. 1e12, 1e-9 .. 0.5, or the one that makes them sum to 1 +- 1e-6..9e-4), "
        "static columns permuted/upper-cased/prefixed, static rows (and lattice rows) permuted, phonon volume blocks reversed or "
        "shuffled; non-trivial = a non-identity permutation with nq >= 3 or np >= 6, or a factor that is not a power of two, or any "
        "column/row/volume re-ordering; distinct by (spec, kind, permutation seed)")
ASSUMPTIONS = [
    "tolerance 1e-8 * scale (re-ordering changes summation order and the reference volume of least-squares fits)",
    "for re-ordered volume blocks an exception from Calculator(...) is an accepted outcome",
]
KINDS = ["q-order", "mode-order", "weight-scale", "static-columns", "static-rows", "volume-order"]


@st.composite
def cases(draw, many_q=False):
    s = draw(dataset_specs(max_nq=5, max_na=3, max_nt=3, interpolators=["lsq_poly", "spline", "pchip", "lagrange", "krogh", "akima"]))
    s["order"] = min(s["order"], 3)
    s["kind"] = draw(st.sampled_from(KINDS[:3] if many_q else KINDS))
    if many_q:
        # a dense Brillouin-zone sampling (hundreds of q-points) on a small (T,V) grid
        s["nq"] = draw(st.sampled_from([257, 300, 513, 770]))
        s["na"] = min(s["na"], 2)
        s["nt"] = min(s["nt"], 2)
        s["ntv"] = min(s["ntv"], 21)
    s["pseed"] = draw(st.integers(0, 10 ** 6))
    s["factor"] = draw(st.sampled_from([2.0, 0.5, 3.0, 0.1, 7.25, 1e-3, 123.456, 1e-9, 3e-13, 1e12, "sum-near-1", "sum-near-1"]))
    s["vorder"] = draw(st.sampled_from(["reversed", "shuffled"]))
    s["colstyle"] = draw(st.sampled_from(["permute", "upper", "prefix", "all"]))
    return s


def presentations(s, ds):
    """kwargs for the writers of the re-presented copy."""
    rng = np.random.default_rng(s["pseed"])
    k01, k02 = {}, {}
    ident = False
    kind = s["kind"]
    if kind == "q-order":
        perm = [0] + list(1 + rng.permutation(ds.nq - 1))
        k01["q_order"] = [int(x) for x in perm]
        ident = perm == list(range(ds.nq))
    elif kind == "mode-order":
        mp = []
        for iq in range(ds.nq):
            if iq == 0:
                mp.append([0, 1, 2] + [int(x) for x in 3 + rng.permutation(ds.npm - 3)])
            else:
                mp.append([int(x) for x in rng.permutation(ds.npm)])
        k01["mode_perm"] = mp
        ident = all(m == list(range(ds.npm)) for m in mp)
    elif kind == "weight-scale":
        f = s["factor"]
        if f == "sum-near-1":
            # weights normalised only to their printed precision: the sum is 1 +- 1e-6..9e-4
            f = (1.0 + float(rng.choice([-1.0, 1.0])) * 10.0 ** rng.uniform(-6, -3.05)) / float(np.sum(ds.weights))
        k01["weights"] = ds.weights * f
    elif kind == "static-columns":
        n = len(ds.static_keys)
        perm = list(rng.permutation(n)) if s["colstyle"] in ("permute", "all") else list(range(n))
        keys = [ds.static_keys[i] for i in perm]
        names = []
        for j, k in enumerate(keys):
            nm = "c%d%d" % k
            if s["colstyle"] in ("upper", "all") and j % 2 == 0:
                nm = nm.upper()
            if s["colstyle"] in ("prefix", "all") and j % 3 == 1:
                nm = "c_%d%d" % k
            names.append(nm)
        k02["keys"] = keys
        k02["names"] = names
    elif kind == "static-rows":
        perm = [int(x) for x in rng.permutation(ds.nv_static)]
        k02["row_order"] = perm
        ident = perm == list(range(ds.nv_static))
    elif kind == "volume-order":
        if s["vorder"] == "reversed":
            k01["volume_order"] = list(range(ds.nv))[::-1]
        else:
            perm = [int(x) for x in rng.permutation(ds.nv)]
            if perm == list(range(ds.nv)):
                perm = perm[::-1]
            k01["volume_order"] = perm
    return k01, k02, ident


def run(ctx, ds, qs, k01, k02, case, allow_error=False):
    import cij.core.calculator as cc
    with Workdir() as wd, warnings.catch_warnings(), np.errstate(all="ignore"):
        warnings.simplefilter("ignore")
        write_input01(os.path.join(wd, "input01"), ds, **k01)
        write_input02(os.path.join(wd, "input02"), ds, **k02)
        path = os.path.join(wd, "settings.yaml")
        write_settings(path, ds, qs, fmt="yaml")
        if allow_error:
            try:
                calc = cc.Calculator(path)
            except Exception:
                return None
        else:
            calc = ctx.observe(cc.Calculator, path, _bucket="C13/crash", _case=case)
        out = {}
        for k, v in calc.modulus_adiabatic.items():
            out["c%d%ds" % k.voigt] = np.array(v, dtype=float)
        for k, v in calc.modulus_isothermal.items():
            out["c%d%dt" % k.voigt] = np.array(v, dtype=float)
        pb = calc.pressure_base
        try:
            for k in calc.modulus_keys:
                out["tp:c%d%ds" % k.voigt] = np.array(pb.modulus_adiabatic[k], dtype=float)
            for name in ("bulk_modulus_voigt_reuss_hill", "shear_modulus_voigt_reuss_hill", "primary_velocities",
                         "secondary_velocities", "volumes"):
                out["tp:" + name] = np.array(getattr(pb, name), dtype=float)
        except AttributeError:
            pass                      # VRH needs the nine orthotropic components; not this property's business
        except Exception:
            if not allow_error:
                raise                 # (volume-order: an error while converting is a rejection of those quantities)
        out["v_array"] = np.array(calc.v_array, dtype=float)
    return out


def oracle(ctx, s, ds, qs, case):
    k01, k02, ident = presentations(s, ds)
    base = run(ctx, ds, qs, {}, {}, case)
    other = run(ctx, ds, qs, k01, k02, case, allow_error=(s["kind"] == "volume-order"))
    if other is None:
        return {"rejected": True, "ident": ident}
    if s["kind"] == "volume-order":
        base = {k: v for k, v in base.items() if k in other}
    if sorted(base) != sorted(other):
        raise PropertyViolation("C13/%s/keys" % s["kind"], "result sets differ: %r vs %r" % (sorted(base), sorted(other)), case)
    tensor_scale = max([float(np.max(np.abs(v[np.isfinite(v)]))) for n2, v in base.items()
                        if n2.startswith("c") and np.any(np.isfinite(v))] + [1e-300])
    for name in sorted(base):
        a, b = base[name], other[name]
        if a.shape != b.shape:
            raise PropertyViolation("C13/%s/shape" % s["kind"], "%s has another shape" % name, case)
        fin = np.isfinite(a) & np.isfinite(b)
        if np.any(np.isfinite(a) != np.isfinite(b)):
            raise PropertyViolation("C13/%s/finite" % s["kind"], "%s finite pattern differs" % name, case)
        if not np.any(fin):
            continue
        # scale: the tensor's natural magnitude for moduli, the quantity itself otherwise
        if name.startswith("c") or name.startswith("tp:c"):
            sc = tensor_scale
        else:
            sc = float(np.max(np.abs(a[fin])))
        dev = float(np.max(np.abs(a - b)[fin]))
        if dev > 1e-8 * sc:
            raise PropertyViolation("C13/%s" % s["kind"], "%s changes by %.3g (scale %.3g) when the same data are presented differently (%s)" % (
                name, dev, sc, s["kind"]), case)
    return {"rejected": False, "ident": ident}


def build(s):
    ds = Dataset(s)
    r = place_pressures(ds)
    return ds, (r[0] if r else None)


def sub_presentations(ctx):
    def body(s):
        if s["kind"] == "volume-order" and ctx.is_excluded("C13/volume-order"):
            return
        ds, qs = build(s)
        if qs is None:
            ctx.stats.skip("unusable-dataset")
            return
        info = oracle(ctx, s, ds, qs, s)
        kind = s["kind"]
        if kind in ("q-order", "mode-order"):
            nt = (not info["ident"]) and (ds.nq >= 3 or ds.npm >= 6)
        elif kind == "weight-scale":
            nt = s["factor"] not in (2.0, 0.5)
        else:
            nt = not info["ident"]
        cl = ["kind-" + kind] + (["q-points>256"] if ds.nq > 256 else [])
        if kind == "volume-order":
            cl.append("volume-order-" + ("rejected" if info["rejected"] else "same-results"))
        ctx.case(s, nt, classes=cl)

    ctx.run_given(body, cases(), max_examples=ctx.n(96, 4000), shrink=not ctx.quick)
    ctx.run_given(body, cases(many_q=True), max_examples=ctx.n(16, 320), shrink=not ctx.quick)


EXAMPLE_KINDS = ["q-order", "mode-order", "weight-scale", "static-columns", "static-rows", "volume-order"]


def sub_examples(ctx):
    """The shipped examples (measured spectra with mode crossings), read with an own parser and re-presented by the
    own writers: akimotoite in both tiers, diopside (150 q-points, ~9 s per run) in the thorough tier."""
    from ..datasets import ExampleDataset
    names = ["akimotoite"] + ([] if ctx.quick else ["diopside"])
    jobs = [(n, k, ps) for n in names for k in EXAMPLE_KINDS for ps in ((1,) if ctx.quick else (1, 2, 3))]
    import gc
    for j, (name, kind, pseed) in enumerate(jobs):
        # diopside needs several GB per calculation (cij keeps three (nt,ntv,nq,np) arrays per task): two shards only
        if name == "diopside":
            if ctx.shard >= 2 or j % 2 != ctx.shard:
                continue
        elif j % ctx.nshards != ctx.shard:
            continue
        gc.collect()
        if kind == "volume-order" and ctx.is_excluded("C13/volume-order"):
            continue
        try:
            ds = ExampleDataset(name)
        except FileNotFoundError:
            ctx.stats.skip("example-missing-" + name)
            continue
        s = {"example": name, "kind": kind, "pseed": pseed + ctx.base_seed, "factor": 7.25 if pseed % 2 else "sum-near-1", "vorder": "reversed" if pseed % 2 else "shuffled",
             "colstyle": "all"}
        info = oracle(ctx, s, ds, ds.qha_settings(), s)
        ctx.case(s, True, classes=["example-" + name, "kind-" + kind])


def subchecks(ctx):
    return [("presentations", sub_presentations), ("examples", sub_examples)]


def replay(ctx, payload):
    s = payload["case"]
    if "example" in s:
        from ..datasets import ExampleDataset
        ds = ExampleDataset(s["example"])
        oracle(ctx, s, ds, ds.qha_settings(), s)
        return
    ds, qs = build(s)
    if qs is not None:
        oracle(ctx, s, ds, qs, s)
