"""C09 - fill refuses exactly when under-determined or inconsistent; never distorts data.

Oracle: independent rank computation on the Laue-invariant subspace (vcij.reflaue) decides
sufficiency; distance of the supplied values from the invariant subspace decides consistency (cases
are constructed far from the threshold on either side); metamorphic relations across presentations
(column order, letter case, dtype, extra columns) and environments (cwd contents, relations path).
"""
import os
import shutil
import tempfile
import warnings

import numpy as np
from hypothesis import strategies as st

from .. import REPO, PropertyViolation
from ..fillhelp import make_table, natural_basis, table_to_components
from ..reflaue import SYSTEMS, complete, invariant_basis, is_sufficient
from ..reftensor import KEYS21

ID = "C09"
SHARDS = {"quick": 16, "thorough": 16}
RULE = ("Hypothesis draws system, a subset near the sufficiency boundary (greedy minimal sufficient set over a drawn order, "
        "then 0-2 columns removed or 0-3 added) or a fully random subset, consistent values or values perturbed so that the "
        "squared distance from the invariant subspace is 0, < tol/100 or = 1e4*tol, the four options, and a presentation "
        "(column order, case, extra columns, int dtype) and environment (cwd with a directory named like the system, relations "
        "given as a path to a copy / a line-reordered copy); a refused table is passed a second time (same object); non-trivial = subset within +-2 columns of the boundary, or "
        "perturbed, or non-default presentation/environment; distinct by the whole drawn case")
ASSUMPTIONS = [
    "sufficiency: rank of the invariant-subspace basis restricted to the supplied components (float SVD, 1e-9 gap)",
    "consistency classes are separated from the threshold by factors >= 100 under the distance-to-subspace measure",
    "'never distorts' clauses are asserted only for consistent tables (with contradictory data and ignore_residuals the "
    "user asked for a compromise)",
]


def call_fill(table, system, **kw):
    from cij.util.fill import fill_cij
    with warnings.catch_warnings():
        warnings.simplefilter("ignore")
        return fill_cij(table, system, **kw)


@st.composite
def cases(draw):
    system = draw(st.sampled_from(SYSTEMS))
    order = draw(st.permutations(list(range(21))))
    mode = draw(st.sampled_from(["boundary", "boundary", "random"]))
    delta = draw(st.integers(-2, 3))
    nrandom = draw(st.integers(1, 21))
    nrows = draw(st.integers(1, 5))
    seed = draw(st.integers(0, 2 ** 32 - 1))
    perturb = draw(st.sampled_from(["none", "none", "tiny", "big", "big-one-row"]))
    if perturb == "big-one-row":
        nrows = draw(st.integers(120, 200))       # a long table with a single contradictory volume row
    pert_col = draw(st.integers(0, 20))
    flags = {
        "ignore_rank": draw(st.booleans()),
        "ignore_residuals": draw(st.booleans()),
        "drop_atol": draw(st.sampled_from([1e-8, 1e-8, 1e-3, 2.5])),
        "residual_atol": draw(st.sampled_from([0.1, 0.1, 1e-4, 10.0])),
    }
    pres = {
        "perm_seed": draw(st.integers(0, 1000)),
        "shuffle": draw(st.booleans()),
        "upper": draw(st.sampled_from(["none", "all", "some"])),
        "extra": draw(st.sampled_from(["none", "V", "V+P", "zero-col"])),
        "int": draw(st.booleans()),
        "index": draw(st.sampled_from(["default", "default", "reversed", "offset", "float"])),
    }
    env = draw(st.sampled_from(["plain", "plain", "cwd-dir", "path-copy", "path-reordered", "cwd-file"]))
    return {"system": system, "order": list(order), "mode": mode, "delta": delta, "nrandom": nrandom, "nrows": nrows,
            "seed": seed, "perturb": perturb, "pert_col": pert_col, "flags": flags, "pres": pres, "env": env}


def subset_of(c):
    B, _ = invariant_basis(c["system"])
    order = c["order"]
    if c["mode"] == "random":
        return [KEYS21[i] for i in order[: c["nrandom"]]]
    chosen, rank, rest = [], 0, []
    for i in order:
        trial = chosen + [i]
        r = int(np.sum(np.linalg.svd(B[trial, :], compute_uv=False) > 1e-9))
        if r > rank and rank < B.shape[1]:
            chosen, rank = trial, r
        else:
            rest.append(i)
    d = c["delta"]
    if d < 0:
        chosen = chosen[: max(1, len(chosen) + d)]
    else:
        chosen = chosen + rest[:d]
    return [KEYS21[i] for i in chosen]


def build_values(c, keys):
    """Supplied values (nrows, len(keys)), consistency class, reference completion."""
    system = c["system"]
    rng = np.random.default_rng(c["seed"])
    nat = natural_basis(system)
    dim = nat.shape[1]
    integer = c["pres"]["int"] and c["perturb"] == "none"
    if integer:
        c0 = 2.0 * rng.integers(-150, 150, size=(1, dim))
        c1 = 2.0 * rng.integers(-20, 20, size=(1, dim))
        t = np.arange(c["nrows"])[:, None]
        coef = c0 + t * c1
    else:
        c0 = rng.uniform(-300, 300, size=(1, dim))
        c1 = rng.uniform(-40, 40, size=(1, dim))
        t = np.linspace(0, 1, c["nrows"])[:, None]
        coef = c0 + t * c1
    w = coef @ nat.T                                   # (nrows, 21)
    idx = [KEYS21.index(k) for k in keys]
    vals = w[:, idx].copy()
    tol = c["flags"]["residual_atol"]
    cls = "consistent"
    if c["perturb"] != "none":
        col = c["pert_col"] % len(keys)
        delta = np.zeros_like(vals)
        delta[:, col] = rng.uniform(0.5, 1.0, size=c["nrows"]) * rng.choice([-1.0, 1.0])
        if c["perturb"] == "big-one-row":
            keep = int(rng.integers(0, c["nrows"]))
            delta[np.arange(c["nrows"]) != keep, :] = 0.0
        _, d2 = complete(system, keys, vals + delta)
        d2max = float(np.max(d2))
        if d2max < 1e-20:
            # the perturbed coordinate is a free parameter: the table is still exactly consistent
            vals = vals + delta
            cls = "consistent"
        else:
            target = tol / 1e4 if c["perturb"] == "tiny" else (1e4 * tol if c["perturb"] == "big" else 50 * tol)
            # scale so that the *smallest* (big) resp. largest (tiny) row distance hits the target
            # smallest *real* row distance for "big" (every row beyond the threshold), the single perturbed row otherwise
            ref = float(np.min(d2[d2 > 1e-9 * d2max])) if c["perturb"] == "big" else d2max
            vals = vals + delta * np.sqrt(target / ref)
            cls = "tiny-perturbation" if c["perturb"] == "tiny" else "inconsistent"
    wref, d2 = complete(system, keys, vals)
    return vals, cls, wref, d2, integer


def present(c, keys, vals, integer):
    """Build the DataFrame in the drawn presentation; returns (df, names)."""
    pres = c["pres"]
    n = len(keys)
    perm = list(range(n))
    if pres["shuffle"]:
        perm = list(np.random.default_rng(pres["perm_seed"]).permutation(n))
    names = []
    for j, i in enumerate(perm):
        nm = "c%d%d" % keys[i]
        if pres["upper"] == "all" or (pres["upper"] == "some" and j % 2 == 0):
            nm = nm.upper()
        names.append(nm)
    extra = None
    nrows = vals.shape[0]
    if pres["extra"] == "V":
        extra = {"V": np.linspace(900.0, 700.0, nrows)}
    elif pres["extra"] == "V+P":
        extra = {"V": np.linspace(900.0, 700.0, nrows), "P": np.linspace(-3.25, 40.5, nrows)}
    elif pres["extra"] == "zero-col":
        extra = {"V": np.linspace(900.0, 700.0, nrows), "P": np.zeros(nrows)}
    df = make_table(vals[:, perm], [keys[i] for i in perm], names=names, extra=None,
                    dtype="int" if integer else None)
    if extra:
        import pandas
        df = pandas.concat([pandas.DataFrame(extra), df], axis=1)
    from ..fillhelp import reindex
    df = reindex(df, pres.get("index", "default"))
    return df, extra


class Env:
    """cwd is a fresh temp dir (removed afterwards), optionally containing a directory/file named like the system."""

    def __init__(self, c):
        self.c = c

    def __enter__(self):
        self.old = os.getcwd()
        self.dir = tempfile.mkdtemp(prefix="cijc09-")
        os.chdir(self.dir)
        system = self.c["system"]
        env = self.c["env"]
        self.system_arg = system
        packaged = os.path.join(REPO, "cij", "data", "constraints", system)
        if env == "cwd-dir":
            os.mkdir(os.path.join(self.dir, system))
        elif env == "cwd-file":
            # an unrelated file in an unrelated sub-directory must not matter
            os.mkdir(os.path.join(self.dir, "data"))
            open(os.path.join(self.dir, "data", system), "w").write("c11 = c22\n")
        elif env == "path-copy":
            shutil.copy(packaged, os.path.join(self.dir, "my_relations.txt"))
            self.system_arg = os.path.join(self.dir, "my_relations.txt")
        elif env == "path-reordered":
            lines = [l for l in open(packaged).read().splitlines() if l.strip()]
            with open(os.path.join(self.dir, "rel2"), "w") as fp:
                fp.write("".join(l + "\n" for l in reversed(lines)))    # no blank lines (not promised to parse)
            self.system_arg = "rel2"          # relative path
        return self

    def __exit__(self, *a):
        os.chdir(self.old)
        shutil.rmtree(self.dir, ignore_errors=True)


def env_bucket(c):
    if c["env"] == "cwd-dir":
        return "cwd-dir"
    if c["env"] in ("path-copy", "path-reordered"):
        return "relations-path"
    return None


def classify(c):
    keys = subset_of(c)
    suff = is_sufficient(c["system"], keys)
    return keys, suff


def oracle(ctx, c, case=None):
    case = case or c
    system = c["system"]
    keys, suff = classify(c)
    vals, cls, wref, d2, integer = build_values(c, keys)
    flags = c["flags"]
    tol = flags["residual_atol"]
    inconsistent = cls == "inconsistent"
    expect_raise = (not suff and not flags["ignore_rank"]) or (inconsistent and not flags["ignore_residuals"])
    tag = ""
    df, extra = present(c, keys, vals, integer)
    df_in = df.copy(deep=True)
    with Env(c) as env:
        try:
            out = call_fill(df, env.system_arg, **flags)
            raised = None
        except Warning as e:
            raised = e
        except Exception as e:  # noqa  -- a crash is not a refusal the property describes
            from ..runner import crash_site
            raise PropertyViolation("C09/crash%s/%s" % (tag, crash_site(e)), "%s: %s" % (type(e).__name__, str(e)[:200]), case)
    info = {"keys": keys, "sufficient": suff, "class": cls, "expect_raise": expect_raise, "integer": integer}
    if expect_raise and raised is None:
        why = "insufficient" if (not suff and not flags["ignore_rank"]) else "inconsistent"
        raise PropertyViolation("C09/accepted-%s%s" % (why, tag), "%s table accepted (subset %s, flags %r)" % (
            why, ["%d%d" % k for k in keys], flags), case)
    if not expect_raise and raised is not None:
        raise PropertyViolation("C09/refused-valid%s" % tag, "table refused although %s and %s: %s" % (
            "sufficient" if suff else "ignore_rank", cls, str(raised)[:160]), case)
    if raised is not None:
        # a refused table is still refused when the very same table object is passed again (users try one system after the
        # other on one DataFrame), and the refusal has not changed it
        with Env(c) as env:
            try:
                call_fill(df, env.system_arg, **flags)
                again = None
            except Warning as e:
                again = e
            except Exception as e:  # noqa
                from ..runner import crash_site
                raise PropertyViolation("C09/crash%s/%s" % (tag, crash_site(e)), "second call: %s: %s" % (type(e).__name__, str(e)[:200]), case)
        if again is None:
            raise PropertyViolation("C09/accepted-after-refusal%s" % tag, "the table refused a moment ago is accepted when passed again", case)
        if list(df.columns) != list(df_in.columns) or not np.array_equal(df.to_numpy(dtype=float), df_in.to_numpy(dtype=float), equal_nan=True):
            raise PropertyViolation("C09/refusal-changes-table%s" % tag, "the caller's table is modified by a refused call", case)
        return info
    # ---------------- acceptance clauses ------------------------------------------------------------
    comps, dup = table_to_components(out)
    if dup:
        raise PropertyViolation("C09/duplicate-columns%s" % tag, "duplicate modulus columns %r" % dup, case)
    # non-modulus columns pass through untouched
    if extra:
        for name, col in extra.items():
            if name not in out.columns:
                raise PropertyViolation("C09/extra-column-lost%s" % tag, "non-modulus column %s missing from the result" % name, case)
            if not np.array_equal(np.asarray(out[name]), col):
                raise PropertyViolation("C09/extra-column-changed%s" % tag, "non-modulus column %s changed" % name, case)
    x = np.zeros((vals.shape[0], 21))
    for k, col in comps.items():
        x[:, KEYS21.index(k)] = col
    info["x"] = x
    info["columns"] = sorted(comps)
    if inconsistent:
        return info                 # ignore_residuals: the user asked for a compromise, nothing more is claimed
    scale = max(float(np.max(np.abs(vals))), 1.0)
    move_tol = np.sqrt(tol) if cls != "consistent" else 1e-9 * scale
    drop = flags["drop_atol"]
    # supplied values do not move
    for j, k in enumerate(keys):
        sup = vals[:, j] if not integer else np.round(vals[:, j])
        if k in comps:
            mv = float(np.max(np.abs(comps[k] - sup)))
        else:
            mv = float(np.max(np.abs(sup)))
            if mv >= drop + move_tol:
                raise PropertyViolation("C09/supplied-dropped%s" % tag, "supplied component c%d%d (max %.3g) dropped" % (k[0], k[1], mv), case)
            mv = 0.0
        if mv > move_tol + (drop if k not in comps else 0):
            raise PropertyViolation("C09/supplied-moved%s" % tag, "supplied component c%d%d moved by %.3g (allowed %.3g)" % (
                k[0], k[1], mv, move_tol), case)
    # relations of the group hold (dropped components are < drop_atol)
    _, Bperp = invariant_basis(system)
    viol = float(np.max(np.abs(x @ Bperp))) if Bperp.shape[1] else 0.0
    if viol > move_tol + 21 * drop:
        raise PropertyViolation("C09/relation-violated%s" % tag, "result violates the Laue relations by %.3g" % viol, case)
    # drop rule: modulus columns with all |values| < drop_atol absent, no others absent
    if suff:
        for n, k in enumerate(KEYS21):
            col = wref[:, n]
            amax = float(np.max(np.abs(col)))
            if amax < drop * 0.5 - move_tol and k in comps and amax + move_tol < drop:
                raise PropertyViolation("C09/zero-not-omitted%s" % tag, "component c%d%d (max %.3g < drop_atol %.3g) present" % (
                    k[0], k[1], amax, drop), case)
            if amax > drop * 2 + move_tol and k not in comps:
                raise PropertyViolation("C09/nonzero-omitted%s" % tag, "component c%d%d (max %.3g) omitted" % (k[0], k[1], amax), case)
            if k in comps and np.max(np.abs(comps[k] - col)) > move_tol * 3 + 1e-9 * scale:
                raise PropertyViolation("C09/wrong-value%s" % tag, "component c%d%d differs from the invariant completion" % k, case)
    info["x"] = x
    info["columns"] = sorted(comps)
    return info


def base_case(c):
    b = dict(c)
    b["pres"] = {"perm_seed": 0, "shuffle": False, "upper": "none", "extra": "none", "int": False, "index": "default"}
    b["env"] = "plain"
    return b


def nondefault(c):
    p = c["pres"]
    return p["shuffle"] or p["upper"] != "none" or p["extra"] != "none" or p["int"] or c["env"] != "plain" or p.get("index", "default") != "default"


def full_oracle(ctx, c):
    info = oracle(ctx, c)
    if nondefault(c):
        # identical outcome across presentations and environments
        b = base_case(c)
        if c["pres"]["int"] and c["perturb"] == "none":
            b["pres"]["int"] = True       # same integer values, float dtype
            b = dict(b, _float_of_int=True)
        info_b = oracle_base(ctx, c, b)
        if ("x" in info) != ("x" in info_b):
            raise PropertyViolation("C09/presentation-dependence", "accept/refuse differs between presentations", c)
        if "x" in info:
            scale = max(float(np.max(np.abs(info_b["x"]))), 1.0)
            if info["class"] == "inconsistent":
                # least-squares compromise of contradictory data (ignore_residuals): components of the order of drop_atol may
                # fall on either side of the drop threshold depending on rounding; compare values (dropped = 0) only
                if np.max(np.abs(info["x"] - info_b["x"])) > 1e-9 * scale + 2 * c["flags"]["drop_atol"]:
                    raise PropertyViolation("C09/presentation-dependence", "result differs between presentations (contradictory data, ignore_residuals)", c)
            elif info["columns"] != info_b["columns"] or np.max(np.abs(info["x"] - info_b["x"])) > 1e-12 * scale:
                raise PropertyViolation("C09/presentation-dependence", "result differs between presentations", c)
    return info


def oracle_base(ctx, c, b):
    """Base presentation of the same data (float dtype, plain order, no environment)."""
    keys, suff = classify(b)
    vals, cls, wref, d2, integer = build_values(b, keys)
    flags = b["flags"]
    b2 = dict(b, pres=dict(b["pres"], int=False))
    df, _ = present(b2, keys, np.round(vals) if integer else vals, False)
    try:
        out = call_fill(df, b["system"], **flags)
    except Exception:
        return {}
    comps, _ = table_to_components(out)
    x = np.zeros((vals.shape[0], 21))
    for k, col in comps.items():
        x[:, KEYS21.index(k)] = col
    return {"x": x, "columns": sorted(comps)}




def case_tags(c):
    """Discriminating input classes of a case (used for buckets and for excluding open known findings)."""
    keys, suff = classify(c)
    vals, cls, wref, d2, integer = build_values(c, keys)
    tags = []
    if c["system"] == "triclinic":
        # the triclinic relation set is empty; the class in which that matters: something would have to be
        # refused (insufficient) or dropped (a supplied column below / near the drop tolerance)
        small = bool(np.any(np.max(np.abs(vals), axis=0) < 2 * c["flags"]["drop_atol"]))
        if (not suff) or small:
            tags.append("system=triclinic")
    eb = env_bucket(c)
    if eb:
        tags.append(eb)
    if integer:
        tags.append("int-dtype")
    if c["pres"]["extra"] == "zero-col":
        tags.append("zero-extra-column")
    if (not suff) and c["flags"]["ignore_rank"] and not c["flags"]["ignore_residuals"] and cls == "inconsistent":
        tags.append("rank-deficient+contradictory")
    return tags, keys, suff


def rebucket(v, tags):
    if tags:
        return PropertyViolation("C09/class:" + tags[0], v.bucket + ": " + v.message, v.case)
    return v


def sub_fill(ctx):
    def body(c):
        tags, keys, suff = case_tags(c)
        for t in tags:
            if ctx.is_excluded("C09/class:" + t):
                return
        try:
            info = full_oracle(ctx, c)
        except PropertyViolation as v:
            # bucket by the discriminating input class of the case, if it has one
            raise rebucket(v, tags)
        B, _ = invariant_basis(c["system"])
        near = c["mode"] == "boundary" and abs(c["delta"]) <= 2
        nt = near or c["perturb"] != "none" or nondefault(c)
        cl = [c["system"], "sufficient" if suff else "insufficient", info["class"], "env-" + c["env"],
              "raise" if info["expect_raise"] else "accept"]
        if c["flags"]["ignore_rank"]:
            cl.append("ignore_rank")
        if c["flags"]["ignore_residuals"]:
            cl.append("ignore_residuals")
        if info["integer"]:
            cl.append("int-dtype")
        ctx.case({k: c[k] for k in c if k != "order"} | {"subset": ["%d%d" % k for k in keys]}, nt, classes=cl, key=c)

    ctx.run_given(body, cases(), max_examples=ctx.n(9 * 150, 9 * 4000), shrink=True)


@st.composite
def cli_cases(draw):
    c = draw(cases())
    c["env"] = "plain"
    c["cli_relations"] = draw(st.sampled_from(["name", "name", "path-lower", "path-Mixed"]))
    c["pres"] = dict(c["pres"], extra="V", int=False, upper=draw(st.sampled_from(["none", "all"])))
    c["flags"] = dict(c["flags"], residual_atol=0.1)
    return c


def cli_oracle(ctx, c):
    """cij fill -s SYSTEM FILE through click's runner: exit status non-zero <=> refusal expected."""
    from click.testing import CliRunner
    import cij.cli.fill
    keys, suff = classify(c)
    vals, cls, wref, d2, integer = build_values(c, keys)
    flags = c["flags"]
    expect_raise = (not suff and not flags["ignore_rank"]) or (cls == "inconsistent" and not flags["ignore_residuals"])
    tag = ""
    df, _ = present(c, keys, vals, False)
    d = tempfile.mkdtemp(prefix="cijc09cli-")
    try:
        path = os.path.join(d, "elast.dat")
        with open(path, "w") as fp:
            fp.write("generated static table\n")
            fp.write("%r %d %r\n" % (800.0, df.shape[0], 100.0))
            fp.write(" ".join(str(x) for x in df.columns) + "\n")
            for _, row in df.iterrows():
                fp.write(" ".join(repr(float(x)) for x in row.values) + "\n")
        sysarg = c["system"]
        if c.get("cli_relations", "name") != "name":
            # a path to a user copy of the relations given in place of the system name (directory names with capitals too)
            sub = os.path.join(d, "MgSiO3_Run" if c["cli_relations"] == "path-Mixed" else "run1")
            os.mkdir(sub)
            sysarg = os.path.join(sub, "Rules.txt" if c["cli_relations"] == "path-Mixed" else "rules.txt")
            shutil.copy(os.path.join(REPO, "cij", "data", "constraints", c["system"]), sysarg)
        args = ["-s", sysarg, "--drop-atol", repr(flags["drop_atol"])]
        if flags["ignore_rank"]:
            args.append("--ignore-rank")
        if flags["ignore_residuals"]:
            args.append("--ignore-residuals")
        with warnings.catch_warnings():
            warnings.simplefilter("ignore")
            res = CliRunner().invoke(cij.cli.fill.main, args + [path])
    finally:
        shutil.rmtree(d, ignore_errors=True)
    failed = res.exit_code != 0
    if failed and not isinstance(res.exception, (Warning, SystemExit)) and res.exception is not None and not expect_raise:
        raise PropertyViolation("C09/cli-crash%s" % tag, "cij fill crashed: %r" % (res.exception,), c)
    if failed != expect_raise:
        raise PropertyViolation("C09/cli-%s%s" % ("accepted-invalid" if expect_raise else "refused-valid", tag),
                                "cij fill exit=%d, refusal expected: %r (%r)" % (res.exit_code, expect_raise, res.exception), c)
    return suff, cls, expect_raise


def sub_cli(ctx):
    def body(c):
        tags, keys, suff = case_tags(c)
        for t in tags:
            if ctx.is_excluded("C09/class:" + t):
                return
        try:
            suff, cls, er = cli_oracle(ctx, c)
        except PropertyViolation as v:
            raise rebucket(v, tags)
        ctx.case({k: c[k] for k in c if k != "order"} | {"cli": True, "subset": ["%d%d" % k for k in keys]}, True,
                 classes=["cli", "cli-raise" if er else "cli-accept"], key=dict(c, cli=True))

    ctx.run_given(body, cli_cases(), max_examples=ctx.n(9 * 20, 9 * 400), shrink=True)


def subchecks(ctx):
    return [("fill", sub_fill), ("cli", sub_cli)]


def replay(ctx, payload):
    c = payload["case"]
    try:
        if payload.get("subcheck") == "cli":
            cli_oracle(ctx, c)
        else:
            full_oracle(ctx, c)
    except PropertyViolation as v:
        raise rebucket(v, case_tags(c)[0])
