"""C14 - deterministic and isolated: hash seed, working directory, process history.

Histories: a Hypothesis rule-based state machine over two data sets (construct / read / read twice / write /
interleave), model = the first observation of each quantity (arrays bitwise, files bytewise).
Subprocess cases: `cij run SETTINGS` under drawn PYTHONHASHSEED values and working-directory contents, model =
the bytes written by the first fresh-process run.  fill o fill = fill.
"""
import os
import shutil
import subprocess
import sys
import tempfile
import warnings

import numpy as np
from hypothesis import strategies as st
from hypothesis.stateful import RuleBasedStateMachine, initialize, rule

from .. import REPO, PropertyViolation
from ..datasets import Dataset, dataset_specs, materialise, place_pressures
from ..fillhelp import make_table, random_invariant, table_to_components
from ..reflaue import SYSTEMS
from ..reftensor import KEYS21

ID = "C14"
SHARDS = {"quick": 16, "thorough": 16}
RULE = ("(histories) rule-based machine: two drawn data sets A,B (unrelated, B = A with another interpolation order, or B = A with every frequency times 1+2e-6; the kind is rotated over the shards); rules construct(A|B), read(quantity), read-twice, "
        "write_output into a fresh directory; every observation is compared bitwise with the first observation of the same "
        "quantity of the same data set; non-trivial = >= 2 constructions of different data sets interleaved and >= 1 repeated write. "
        "(subprocess) `cij run` of one drawn data set with PYTHONHASHSEED in {0,1,drawn} x working directory {empty, stray files, a "
        "directory named like the crystal system, a stray constraints/ directory, files named like the inputs}; non-trivial = hash seed and cwd content both differ "
        "from the base run. (fill) fill(fill(t)) == fill(t). distinct by drawn history / (seed, hashseed, cwd)")
ASSUMPTIONS = [
    "single-threaded BLAS (OMP_NUM_THREADS=1) so that floating-point summation order is fixed by the code, not the scheduler",
    "hash seeds and histories are sampled, not enumerated",
]

QUANTS = ["modulus_adiabatic", "modulus_isothermal", "bulk_modulus_voigt_reuss_hill", "shear_modulus_voigt_reuss_hill",
          "primary_velocities", "tp:modulus_adiabatic", "tp:modulus_isothermal", "tp:volumes", "static_p_array", "v_array",
          # bounds before their Hill means in the forward order, after them in the reverse order
          "tp:bulk_modulus_voigt", "tp:shear_modulus_reuss", "tp:bulk_modulus_voigt_reuss_hill", "tp:shear_modulus_voigt_reuss_hill"]
OUTPUT = {"pressure_base": ["cij", "bm_VRH", "G_VRH", "v", "vs", "vp", "cij_t"], "volume_base": ["p", "cij"]}
# data set A additionally uses the dict form with overrides (must not leak into later writes of B)
OUTPUT_A = {"pressure_base": [{"keyword": "cij", "unit": "kbar"}, "bm_VRH", {"keyword": "G_VRH", "unit": "Pa"}, "v",
                              {"keyword": "vs", "fname": "my_vs.txt"}, "vp", "cij_t"], "volume_base": ["p", "cij"]}


def small_specs():
    return dataset_specs(max_nq=2, max_na=1, max_nt=2, interpolators=["lsq_poly"], keys_mode="ortho9+",
                         ntv_range=(16, 22), min_nv=5, max_nv=6)


def snapshot(calc, q):
    if q.startswith("tp:"):
        obj = getattr(calc.pressure_base, q[3:])
    elif q in ("static_p_array", "v_array", "modulus_adiabatic", "modulus_isothermal"):
        obj = getattr(calc, q)
    else:
        obj = getattr(calc.volume_base, q)
    if hasattr(obj, "items"):
        return {str(k): np.array(v) for k, v in obj.items()}
    return {"": np.array(obj)}


def same(a, b):
    if sorted(a) != sorted(b):
        return False
    return all(np.array_equal(a[k], b[k], equal_nan=True) and a[k].dtype == b[k].dtype for k in a)


class GoldenServer:
    """A helper process forked (os.fork) before any calculation has run in this process.  For every request it
    forks a pristine child that performs ONE calculation and returns all quantities and output files: the model
    against which every observation of the (possibly long) in-process history is compared."""

    def __init__(self):
        import pickle
        self.pickle = pickle
        req_r, req_w = os.pipe()
        res_r, res_w = os.pipe()
        pid = os.fork()
        if pid == 0:
            try:
                os.close(req_w)
                os.close(res_r)
                GoldenServer._serve(os.fdopen(req_r, "rb"), os.fdopen(res_w, "wb"))
            finally:
                os._exit(0)
        os.close(req_r)
        os.close(res_w)
        self.pid = pid
        self.req = os.fdopen(req_w, "wb")
        self.res = os.fdopen(res_r, "rb")
        self.cache = {}

    @staticmethod
    def _one(path):
        import cij.core.calculator as cc
        try:
            with warnings.catch_warnings(), np.errstate(all="ignore"):
                warnings.simplefilter("ignore")
                calc = cc.Calculator(path)
                res = {"read": {q: snapshot(calc, q) for q in QUANTS}}
                # the same quantities read in the opposite order from a second fresh object must be identical
                calc2 = cc.Calculator(path)
                rev = {q: snapshot(calc2, q) for q in reversed(QUANTS)}
                res["order_dependent"] = [q for q in QUANTS if not same(res["read"][q], rev[q])]
                d = tempfile.mkdtemp(prefix="cijc14g-")
                old = os.getcwd()
                os.chdir(d)
                try:
                    calc.write_output()
                    res["write"] = {f: open(os.path.join(d, f), "rb").read() for f in sorted(os.listdir(d))}
                finally:
                    os.chdir(old)
                    shutil.rmtree(d, ignore_errors=True)
            return ("ok", res)
        except BaseException as e:  # noqa
            return ("error", "%s: %s" % (type(e).__name__, e))

    @staticmethod
    def _serve(req, res):
        import pickle
        while True:
            try:
                path = pickle.load(req)
            except EOFError:
                return
            if path is None:
                return
            r, w = os.pipe()
            pid = os.fork()
            if pid == 0:
                try:
                    os.close(r)
                    with os.fdopen(w, "wb") as fp:
                        pickle.dump(GoldenServer._one(path), fp)
                finally:
                    os._exit(0)
            os.close(w)
            with os.fdopen(r, "rb") as fp:
                data = fp.read()
            os.waitpid(pid, 0)
            if not data:
                data = pickle.dumps(("error", "golden child died"))
            res.write(len(data).to_bytes(8, "little"))
            res.write(data)
            res.flush()

    def golden(self, key, path):
        if key not in self.cache:
            self.pickle.dump(path, self.req)
            self.req.flush()
            n = int.from_bytes(self.res.read(8), "little")
            self.cache[key] = self.pickle.loads(self.res.read(n))
            if len(self.cache) > 8:
                self.cache.pop(next(iter(self.cache)))
        return self.cache[key]

    def close(self):
        try:
            self.pickle.dump(None, self.req)
            self.req.flush()
            self.req.close()
            os.waitpid(self.pid, 0)
        except Exception:
            pass


def make_machine(ctx, server):
    class Histories(RuleBasedStateMachine):
        def __init__(self):
            super().__init__()
            self.dirs = []
            self.data = {}
            self.calc = {}
            self.first = {}
            self.log = []
            self.specs = None
            self.ok = False

        # (Hypothesis tries the first element most often when only a dozen histories run per shard: rotate it by shard)
        @initialize(a=small_specs(), b=small_specs(),
                    twin=st.sampled_from(([False, True, "near", False] * 2)[ctx.shard % 4: ctx.shard % 4 + 4]))
        def init(self, a, b, twin):
            if twin == "near":
                # B is A with every frequency scaled by 1 + 2e-6 (a re-converged phonon run): a different calculation whose
                # inputs are equal to A's within any "approximately equal" comparison
                b = dict(a, nu_scale=1.0 + 2e-6)
            elif twin:
                # B is the same physical data and the same (T,V) grids as A, evaluated with another interpolation order:
                # everything that identifies a calculation by its grids alone is identical
                b = dict(a, order=(1 if a["order"] != 1 else 2))
            self.specs = {"A": a, "B": b}
            for name, s in self.specs.items():
                ds = Dataset(s)
                r = place_pressures(ds)
                if r is None:
                    return
                d = tempfile.mkdtemp(prefix="cijc14-")
                self.dirs.append(d)
                path, cfg = materialise(ds, d, r[0], output=OUTPUT_A if name == "A" else OUTPUT)
                self.data[name] = path
                status, res = server.golden((name, repr(sorted(s.items()))), path)
                if status != "ok":
                    raise PropertyViolation("C14/crash/fresh-process", "calculation fails in a fresh process: %s" % res, self.case())
                if res.get("order_dependent"):
                    raise PropertyViolation("C14/read-order-dependence", "in a fresh process %r depend on the order in which results are read" % (
                        res["order_dependent"],), self.case())
                self.first[(name, "write")] = res["write"]
                for q in QUANTS:
                    self.first[(name, "read", q)] = res["read"][q]
            self.ok = True

        def case(self):
            return {"specs": self.specs, "history": list(self.log)}

        def get(self, which):
            import cij.core.calculator as cc
            if which not in self.calc:
                self.construct(which)
            return self.calc[which]

        @rule(which=st.sampled_from(["A", "B"]))
        def construct(self, which):
            if not self.ok:
                return
            import cij.core.calculator as cc
            self.log.append(["construct", which])
            with warnings.catch_warnings(), np.errstate(all="ignore"):
                warnings.simplefilter("ignore")
                self.calc[which] = ctx.observe(cc.Calculator, self.data[which], _bucket="C14/crash", _case=self.case())
            self.record()

        @rule(which=st.sampled_from(["A", "B"]), q=st.sampled_from(QUANTS), twice=st.booleans())
        def read(self, which, q, twice):
            if not self.ok:
                return
            calc = self.get(which)
            self.log.append(["read", which, q, twice])
            with warnings.catch_warnings(), np.errstate(all="ignore"):
                warnings.simplefilter("ignore")
                snap = ctx.observe(snapshot, calc, q, _bucket="C14/crash", _case=self.case())
                if twice:
                    snap2 = snapshot(calc, q)
                    if not same(snap, snap2):
                        raise PropertyViolation("C14/read-twice", "reading %s twice gives different arrays" % q, self.case())
            key = (which, "read", q)
            if key in self.first:
                if not same(self.first[key], snap):
                    raise PropertyViolation("C14/history-dependence/read", "%s of data set %s differs from the value computed in a fresh process" % (q, which), self.case())
            else:
                self.first[key] = snap
            self.record()

        @rule(which=st.sampled_from(["A", "B"]))
        def write(self, which):
            if not self.ok:
                return
            calc = self.get(which)
            self.log.append(["write", which])
            d = tempfile.mkdtemp(prefix="cijc14w-")
            old = os.getcwd()
            os.chdir(d)
            try:
                with warnings.catch_warnings(), np.errstate(all="ignore"):
                    warnings.simplefilter("ignore")
                    ctx.observe(calc.write_output, _bucket="C14/crash", _case=self.case())
                files = {f: open(os.path.join(d, f), "rb").read() for f in sorted(os.listdir(d))}
            finally:
                os.chdir(old)
                shutil.rmtree(d, ignore_errors=True)
            key = (which, "write")
            if key in self.first:
                if files != self.first[key]:
                    diff = [f for f in files if self.first[key].get(f) != files[f]] + [f for f in self.first[key] if f not in files]
                    raise PropertyViolation("C14/history-dependence/write", "output files of data set %s differ from those written by a fresh process: %r" % (
                        which, diff[:4]), self.case())
            else:
                self.first[key] = files
            self.record()

        def record(self):
            cons = [e[1] for e in self.log if e[0] == "construct"]
            writes = [e[1] for e in self.log if e[0] == "write"]
            nt = len(set(cons)) == 2 and len(cons) >= 2 and any(writes.count(w) >= 2 for w in set(writes))
            ctx.case({"history": list(self.log), "seedA": self.specs["A"]["seed"], "seedB": self.specs["B"]["seed"]}, nt,
                     classes=["history-step-" + self.log[-1][0],
                              "data-sets-" + ("near-twin(frequencies x 1+2e-6)" if self.specs["B"].get("nu_scale") else
                                              "twin(other order)" if {k: v for k, v in self.specs["B"].items() if k != "order"} ==
                                              {k: v for k, v in self.specs["A"].items() if k != "order"} else "unrelated")])

        def teardown(self):
            for d in self.dirs:
                shutil.rmtree(d, ignore_errors=True)

    return Histories


def sub_histories(ctx):
    server = GoldenServer()           # forked now, before any calculation ran in this process
    try:
        ctx.run_machine(make_machine(ctx, server), max_examples=ctx.n(32, 1000), steps=ctx.pick(8, 20), shrink=not ctx.quick,
                        flaky_is_state_leak=True)
    finally:
        server.close()


# ---------------------------------------------------------------------------------------------------------
def run_cli(settings_path, cwd, hashseed, extra=()):
    env = dict(os.environ)
    env["PYTHONHASHSEED"] = str(hashseed)
    env["PYTHONPATH"] = REPO + os.pathsep + env.get("PYTHONPATH", "")
    env["PYTHONWARNINGS"] = "ignore"
    r = subprocess.run([sys.executable, "-m", "cij.cli.cij", "run", settings_path] + list(extra), cwd=cwd, env=env,
                       capture_output=True, text=True, timeout=600)
    return r


CWD_KINDS = ["empty", "stray-files", "system-dir", "constraints-dir", "same-named-inputs"]
HASHSEEDS = [1, 2, 17, 12345, 4294967295, "random"]


def prepare_cwd(kind, system):
    d = tempfile.mkdtemp(prefix="cijc14cwd-")
    pre = set()
    if kind == "stray-files":
        open(os.path.join(d, "notes.txt"), "w").write("c11 = c22\n")
        open(os.path.join(d, "settings.yaml.bak"), "w").write("qha: {}\n")
    elif kind == "same-named-inputs":
        # files of another calculation, named like the inputs the settings file (in another directory) refers to
        open(os.path.join(d, "input01"), "w").write("phonon data of another crystal\n")
        open(os.path.join(d, "input02"), "w").write("another static table\n0 0 0\nV c11\n")
        open(os.path.join(d, "elast.dat"), "w").write("another static table\n0 0 0\nV c11\n")
    elif kind == "system-dir":
        os.mkdir(os.path.join(d, system))
        open(os.path.join(d, system, "README"), "w").write("unrelated\n")
    elif kind == "constraints-dir":
        os.mkdir(os.path.join(d, "constraints"))
        open(os.path.join(d, "constraints", system), "w").write("c11 = c22 = c33 = c44\n")
    for root, dirs, files in os.walk(d):
        for f in files:
            pre.add(os.path.relpath(os.path.join(root, f), d))
    return d, pre


def collect(d, pre):
    out = {}
    for root, dirs, files in os.walk(d):
        for f in files:
            rel = os.path.relpath(os.path.join(root, f), d)
            if rel not in pre:
                out[rel] = open(os.path.join(root, f), "rb").read()
    return out


@st.composite
def sub_cases(draw, cwd_kind=None, hashseed=None, debug=None):
    s = draw(dataset_specs(max_nq=2, max_na=1, max_nt=2, interpolators=["lsq_poly"], ntv_range=(16, 22), min_nv=5, max_nv=6,
                           systems=[x for x in SYSTEMS if x != "triclinic"]))
    s["apply_system"] = True
    s["hashseed"] = hashseed if hashseed is not None else draw(st.sampled_from(HASHSEEDS))
    s["cwd_kind"] = cwd_kind or draw(st.sampled_from(CWD_KINDS))
    s["debug"] = draw(st.booleans()) if debug is None else debug
    return s


def subprocess_oracle(ctx, s):
    if s.get("example"):
        from ..datasets import ExampleDataset
        ds = ExampleDataset(s["example"])
        r = (ds.qha_settings(nt=4, dt=250.0), None)
        s = dict(s, system=ds.system)
    else:
        ds = Dataset(s)
        r = place_pressures(ds)
    if r is None:
        return None
    data = tempfile.mkdtemp(prefix="cijc14d-")
    dirs = [data]
    try:
        path, cfg = materialise(ds, data, r[0], output=OUTPUT)
        base_cwd, pre0 = prepare_cwd("empty", s["system"])
        dirs.append(base_cwd)
        r0 = run_cli(path, base_cwd, 0)
        if r0.returncode != 0:
            raise PropertyViolation("C14/subprocess/base-run-failed", "cij run failed: %s" % r0.stderr[-300:], s)
        f0 = collect(base_cwd, pre0)
        if not f0:
            raise PropertyViolation("C14/subprocess/no-output", "cij run wrote no output files", s)
        cwd, pre = prepare_cwd(s["cwd_kind"], s["system"])
        dirs.append(cwd)
        # verbosity is a user option of `cij run`: it must not change a byte of the output files
        r1 = run_cli(path, cwd, s["hashseed"], extra=(["--debug", "DEBUG"] if s.get("debug") else []))
        if r1.returncode != 0:
            raise PropertyViolation("C14/subprocess/cwd=%s/run-failed" % s["cwd_kind"], "cij run failed in a working directory with %s: %s" % (
                s["cwd_kind"], r1.stderr[-300:]), s)
        f1 = collect(cwd, pre)
        if f0 != f1:
            diff = sorted(set(f0) ^ set(f1)) + [f for f in f0 if f in f1 and f0[f] != f1[f]]
            raise PropertyViolation("C14/subprocess/output-differs", "output differs (hash seed %s, cwd %s): %r" % (
                s["hashseed"], s["cwd_kind"], diff[:4]), s)
        return {"files": len(f0)}
    finally:
        for d in dirs:
            shutil.rmtree(d, ignore_errors=True)


def sub_subprocess(ctx):
    def body(s):
        if not ctx.quick and ctx.shard % 4 == 3:
            s = dict(s, example="akimotoite")          # measured spectra, symmetry filling (trigonal7) in a subprocess
        info = subprocess_oracle(ctx, s)
        if info is None:
            ctx.stats.skip("unusable-dataset")
            return
        ctx.case(s, s["cwd_kind"] != "empty", classes=["cwd-" + s["cwd_kind"], "hashseed-%s" % s["hashseed"], "debug-log" if s.get("debug") else "default-log"]
                 + (["example-akimotoite"] if s.get("example") else []))

    # Hypothesis' first example is always the simplest one: with one example per shard every shard would run the same
    # case, so the two environment dimensions are stratified over the shards (still drawn through a strategy)
    kind = CWD_KINDS[(ctx.shard + ctx.base_seed) % len(CWD_KINDS)]
    hs = HASHSEEDS[(ctx.shard // len(CWD_KINDS) + ctx.base_seed) % len(HASHSEEDS)]
    dbg = bool((ctx.shard // 2 + ctx.base_seed) % 2)
    ctx.run_given(body, sub_cases(kind, hs, dbg), max_examples=ctx.n(16, 64), shrink=False)


# ---------------------------------------------------------------------------------------------------------
@st.composite
def fill_cases(draw):
    return {"system": draw(st.sampled_from(SYSTEMS)), "seed": draw(st.integers(0, 2 ** 32 - 1)), "nrows": draw(st.integers(1, 5)),
            "order": list(draw(st.permutations(list(range(21))))), "extra": draw(st.integers(0, 3))}


def fill_oracle(ctx, c):
    from cij.util.fill import fill_cij
    from .c08 import subset_from_order
    system = c["system"]
    w = random_invariant(system, np.random.default_rng(c["seed"]), c["nrows"])
    keys = subset_from_order(system, c["order"], c["extra"])
    idx = [KEYS21.index(k) for k in keys]
    with warnings.catch_warnings():
        warnings.simplefilter("ignore")
        t1 = ctx.observe(fill_cij, make_table(w[:, idx], keys), system, _bucket="C14/fill-crash", _case=c)
        t1c = t1.copy(deep=True)
        t2 = ctx.observe(fill_cij, t1, system, _bucket="C14/fill-twice-crash", _case=c)
    c1, _ = table_to_components(t1c)
    c2, _ = table_to_components(t2)
    if list(t1c.columns) != list(t2.columns):
        raise PropertyViolation("C14/fill-idempotence", "columns change when an already filled table is filled again", c)
    scale = max(1.0, float(np.max(np.abs(w))))
    for k in c1:
        if np.max(np.abs(c1[k] - c2[k])) > 1e-12 * scale:
            raise PropertyViolation("C14/fill-idempotence", "c%d%d changes when an already filled table is filled again" % k, c)


def sub_fill(ctx):
    def body(c):
        fill_oracle(ctx, c)
        ctx.case(c, c["system"] != "triclinic", classes=["fill-twice", c["system"]])

    ctx.run_given(body, fill_cases(), max_examples=ctx.n(9 * 16, 9 * 400))


def subchecks(ctx):
    return [("histories", sub_histories), ("subprocess", sub_subprocess), ("fill_twice", sub_fill)]


def replay(ctx, payload):
    case = payload["case"]
    sub = payload.get("subcheck")
    if sub == "fill_twice":
        fill_oracle(ctx, case)
    elif sub == "subprocess":
        subprocess_oracle(ctx, case)
    else:
        replay_history(ctx, case)


def replay_history(ctx, case):
    try:
        _replay_history(ctx, case)
    except PropertyViolation:
        raise
    except Exception as e:  # noqa  -- a crash of the code under test while re-running a saved history
        from ..runner import crash_site
        raise PropertyViolation("C14/crash/%s" % crash_site(e), "%s: %s" % (type(e).__name__, str(e)[:200]), case)


def _replay_history(ctx, case):
    import cij.core.calculator as cc
    dirs, data, calc, first = [], {}, {}, {}
    try:
        for name, s in case["specs"].items():
            ds = Dataset(s)
            r = place_pressures(ds)
            if r is None:
                return
            d = tempfile.mkdtemp(prefix="cijc14-")
            dirs.append(d)
            data[name], _ = materialise(ds, d, r[0], output=OUTPUT_A if name == "A" else OUTPUT)
        server = GoldenServer()
        try:
            for name in data:
                status, res = server.golden((name,), data[name])
                if status == "ok" and res.get("order_dependent"):
                    raise PropertyViolation("C14/read-order-dependence", "%r depend on the read order" % (res["order_dependent"],), case)
                if status == "ok":
                    first[(name, "write")] = res["write"]
                    for q in QUANTS:
                        first[(name, "read", q)] = res["read"][q]
        finally:
            server.close()
        for step in case["history"]:
            kind, which = step[0], step[1]
            with warnings.catch_warnings(), np.errstate(all="ignore"):
                warnings.simplefilter("ignore")
                if kind == "construct" or which not in calc:
                    calc[which] = cc.Calculator(data[which])
                if kind == "read":
                    snap = snapshot(calc[which], step[2])
                    if step[3] and not same(snap, snapshot(calc[which], step[2])):
                        raise PropertyViolation("C14/read-twice", "reading %s twice differs" % step[2], case)
                    key = (which, "read", step[2])
                    if key in first and not same(first[key], snap):
                        raise PropertyViolation("C14/history-dependence/read", "%s of %s differs from its first observation" % (step[2], which), case)
                    first.setdefault(key, snap)
                elif kind == "write":
                    d = tempfile.mkdtemp(prefix="cijc14w-")
                    old = os.getcwd()
                    os.chdir(d)
                    try:
                        calc[which].write_output()
                        files = {f: open(os.path.join(d, f), "rb").read() for f in sorted(os.listdir(d))}
                    finally:
                        os.chdir(old)
                        shutil.rmtree(d, ignore_errors=True)
                    key = (which, "write")
                    if key in first and first[key] != files:
                        raise PropertyViolation("C14/history-dependence/write", "output files of %s differ from the first write" % which, case)
                    first.setdefault(key, files)
    finally:
        for d in dirs:
            shutil.rmtree(d, ignore_errors=True)
