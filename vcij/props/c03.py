"""C03 - shear components obtained by strain-energy rotation are exact tensor algebra.

Complete basis enumeration (15 shear keys x 21 basis tensors: by linearity this decides all tensors)
plus Hypothesis-drawn random combinations and strain triples, against vcij.reftensor.
"""
import numpy as np
from hypothesis import strategies as st

from .. import PropertyViolation
from ..reftensor import KEYS21, SHEAR15, canon, keys_from_tensor, rotate, tensor_from_keys

ID = "C03"
SHARDS = {"quick": 1, "thorough": 8}
EXHAUSTIVE = True
EXHAUSTIVE_NOTE = ("the linear map tensor -> returned component is evaluated on all 21 basis tensors for all 15 "
                   "shear keys (complete for the tensor argument by linearity); strains are sampled")
RULE = ("(key, basis tensor) pairs enumerated completely, then Hypothesis draws coefficient vectors (+-1e3 on the 21 keys) "
        "and positive strain triples (0.01..10, 1-4 volumes, equal pairs included; a quarter as whole-number integer arrays); the same solver object is evaluated three times; non-trivial = the basis tensor "
        "enters the original-frame or the rotated-frame energy of that key / a random combination; distinct by (key, tensor, strain)")
ASSUMPTIONS = [
    "any orthonormal eigenbasis of the fictitious strain is accepted as the rotated frame (validated, then used by the reference)",
    "tolerance 1e-11 * max|C| for the returned component, 1e-12 for frame and strain identities",
]


_BUFFERS = {}


def _vk(key):
    return "%d%d" % key


def frame_checks(ctx, obj, key, strain, case):
    """Validity predicates on the frame and the rotated axial strains."""
    eps = np.asarray(obj.fictitious_strain)
    T = np.asarray(obj.transformation_matrix)
    D = np.asarray(obj.fictitious_strain_rotated)
    for name, arr in (("transformation_matrix", T), ("fictitious_strain_rotated", D)):
        if np.iscomplexobj(arr):
            if np.max(np.abs(arr.imag)) > 0:
                raise PropertyViolation("C03/frame/complex", "%s has a non-zero imaginary part" % name, case)
    T = np.real(T).astype(float)
    D = np.real(D).astype(float)
    # fictitious strain: symmetric unit entries at the key's index pairs
    (I, J) = key
    from ..reftensor import PAIR_OF_VOIGT
    want = np.zeros((3, 3))
    for v in (I, J):
        i, j = PAIR_OF_VOIGT[v]
        want[i - 1, j - 1] = 1
        want[j - 1, i - 1] = 1
    if not np.array_equal(eps, want):
        raise PropertyViolation("C03/fictitious-strain", "fictitious strain of %s is %r" % (_vk(key), eps.tolist()), case)
    if np.max(np.abs(T.T @ T - np.eye(3))) > 1e-12:
        raise PropertyViolation("C03/frame/not-orthonormal", "T^T T != I for %s" % _vk(key), case)
    R = T.T @ eps @ T
    if np.max(np.abs(R - np.diag(np.diag(R)))) > 1e-12 or np.max(np.abs(R - D)) > 1e-12:
        raise PropertyViolation("C03/frame/not-diagonalising", "T^T eps T != fictitious_strain_rotated for %s" % _vk(key), case)
    w = np.linalg.eigvalsh(eps)
    if np.max(np.abs(np.sort(np.diag(D)) - w)) > 1e-12:
        raise PropertyViolation("C03/frame/spectrum", "spectrum differs from eigh for %s" % _vk(key), case)
    # rotated axial strains
    sr = np.asarray(obj.strain_rotated)
    if np.iscomplexobj(sr):
        if np.max(np.abs(sr.imag)) > 0:
            raise PropertyViolation("C03/strain-rotated/complex", "strain_rotated complex", case)
        sr = sr.real
    e = np.asarray(strain, dtype=float)
    single = e.ndim == 1
    if single:
        e = e[None, :]
        if sr.shape != (3,):
            raise PropertyViolation("C03/strain-rotated/value", "strain_rotated of a single triple has shape %r" % (sr.shape,), case)
        sr = sr[None, :]
    want_sr = np.einsum("ai,va,ai->vi", T, e, T)            # diag(T^T diag(e) T)
    scale = np.max(np.abs(e))
    if sr.shape != e.shape or np.max(np.abs(sr - want_sr)) > 1e-12 * scale:
        raise PropertyViolation("C03/strain-rotated/value", "strain_rotated != diag(T^T diag(e) T) for %s" % _vk(key), case)
    if np.max(np.abs(sr.sum(axis=1) - e.sum(axis=1))) > 1e-12 * scale:
        raise PropertyViolation("C03/strain-rotated/trace", "trace not preserved for %s" % _vk(key), case)
    # sign/order independence: per eigenvalue (per eigenspace when degenerate) equal to the eigh-based value
    wh, U = np.linalg.eigh(eps)
    lam = np.diag(D)
    for val in np.unique(np.round(wh, 9)):
        mine = np.isclose(lam, val, atol=1e-8)
        theirs = np.isclose(wh, val, atol=1e-8)
        if mine.sum() != theirs.sum():
            raise PropertyViolation("C03/frame/spectrum", "eigenvalue multiplicity differs for %s" % _vk(key), case)
        a = sr[:, mine].sum(axis=1)
        b = np.einsum("ai,va,ai->vi", U[:, theirs], e, U[:, theirs]).sum(axis=1)
        if np.max(np.abs(a - b)) > 1e-12 * scale:
            raise PropertyViolation("C03/strain-rotated/eigenspace", "rotated strain per eigenspace differs for %s" % _vk(key), case)
    return T, D


def needed_keys(eps):
    nz = [(i, j) for i in range(3) for j in range(3) if abs(eps[i, j]) > 1e-9]
    return set(canon(i + 1, j + 1, k + 1, l + 1) for (i, j) in nz for (k, l) in nz)


def solve_with_reference(ctx, U, key, Ckeys, strain, case):
    """Give the solver C's exact components and return (result, expected, frame info)."""
    from cij.core.phonon_contribution.shear import ShearElasticModulusPhononContribution as Shear
    ckey = U.c_(*key)
    # callers keep work buffers: the same array object is refilled in place for the next triple (the solver must not
    # remember anything about an array by its identity)
    arr = np.asarray(strain, dtype=float)
    if case.get("single_triple") and arr.ndim == 2:
        arr = arr[0]                       # the constructor is annotated Tuple[float, float, float]: one triple of shape (3,)
    if case.get("int_strain"):
        # whole-number triples such as (1, 2, 3) handed over as an integer array
        buf = np.array(arr, dtype=np.int64)
        arr = buf.astype(float)
    else:
        buf = _BUFFERS.setdefault(arr.shape, np.empty(arr.shape))
        buf[...] = arr
    obj = ctx.observe(Shear, buf, ckey, _bucket="C03/ctor", _case=case)
    T, D = ctx.observe(frame_checks, ctx, obj, key, arr if arr.ndim == 1 else strain, case, _bucket="C03/frame-crash", _case=case)
    C = tensor_from_keys(Ckeys)
    Crot = keys_from_tensor(rotate(C, T))
    req = ctx.observe(obj.get_modulus_keys, _bucket="C03/keys-crash", _case=case)
    req_rot = ctx.observe(obj.get_modulus_keys_rotated, _bucket="C03/keys-crash", _case=case)
    req_set = set(tuple(k.voigt) for k in req)
    rot_set = set(tuple(k.voigt) for k in req_rot)
    if key in req_set:
        raise PropertyViolation("C03/keys/target-requested", "target %s is among the requested keys" % _vk(key), case)
    need = needed_keys(np.asarray(obj.fictitious_strain)) - {key}
    if req_set != need:
        raise PropertyViolation("C03/keys/original", "requested %r, energy needs %r" % (sorted(req_set), sorted(need)), case)
    need_rot = needed_keys(D)
    if rot_set != need_rot:
        raise PropertyViolation("C03/keys/rotated", "requested (rotated) %r, energy needs %r" % (sorted(rot_set), sorted(need_rot)), case)
    if any(k[1] >= 4 for k in rot_set):
        raise PropertyViolation("C03/keys/rotated-shear", "rotated frame asks for a shear component", case)
    obj.modulus = {U.c_(*k): Ckeys.get(k, 0.0) for k in req_set}
    obj.modulus_rotated = {U.c_(*k): Crot[k] for k in rot_set}
    res = ctx.observe(obj.get_target_elastic_modulus, _bucket="C03/solve-crash", _case=case)
    # the solver object answers the same question the same way a second time, also after the (same) moduli are assigned again
    res2 = ctx.observe(obj.get_target_elastic_modulus, _bucket="C03/solve-crash", _case=case)
    obj.modulus = {U.c_(*k): Ckeys.get(k, 0.0) for k in req_set}
    obj.modulus_rotated = {U.c_(*k): Crot[k] for k in rot_set}
    res3 = ctx.observe(obj.get_target_elastic_modulus, _bucket="C03/solve-crash", _case=case)
    if not (np.array_equal(np.asarray(res), np.asarray(res2), equal_nan=True) and np.array_equal(np.asarray(res), np.asarray(res3), equal_nan=True)):
        raise PropertyViolation("C03/second-evaluation", "the same solver returns %r, then %r, then %r for %s" % (res, res2, res3, _vk(key)), case)
    res = np.asarray(res)
    if np.iscomplexobj(res):
        if np.max(np.abs(res.imag)) > 0:
            raise PropertyViolation("C03/result-complex", "result has an imaginary part", case)
        res = res.real
    return float(res), float(Ckeys.get(key, 0.0)), req_set, rot_set, Crot


def sub_basis(ctx):
    if not ctx.primary:
        return
    import cij.util as U
    strain = [[0.2, 0.3, 0.5], [1.0, 1.0, 1.0], [0.4, 0.4, 0.2]]
    for key in SHEAR15:
        for b in KEYS21:
            case = {"key": _vk(key), "basis": _vk(b), "strain": strain}
            Ck = {b: 1.0}
            res, want, req, rot, Crot = solve_with_reference(ctx, U, key, Ck, strain, case)
            if abs(res - want) > 1e-11:
                raise PropertyViolation("C03/value/key=%s" % _vk(key), "basis %s: solver returns %r, tensor has %r" % (
                    _vk(b), res, want), case)
            enters = (b in req) or (b == key) or any(abs(Crot[k]) > 1e-12 for k in rot)
            ctx.case(case, enters, classes=["basis", "key-" + _vk(key)])


@st.composite
def random_cases(draw):
    key = draw(st.sampled_from(SHEAR15))
    coefs = draw(st.lists(st.floats(-1e3, 1e3), min_size=21, max_size=21))
    nv = draw(st.integers(1, 4))
    rows = []
    int_strain = draw(st.sampled_from([False, False, False, True]))
    num = st.integers(1, 9).map(float) if int_strain else st.floats(0.01, 10.0)
    for _ in range(nv):
        a = draw(num)
        b = draw(st.one_of(st.just(a), num))
        c = draw(st.one_of(st.just(a), st.just(b), num))
        rows.append([a, b, c])
    return {"key": _vk(key), "coefs": coefs, "strain": rows, "single_triple": draw(st.booleans()), "debug_log": draw(st.booleans()),
            "int_strain": int_strain}


def random_oracle(ctx, case):
    import logging
    import cij.util as U
    key = (int(case["key"][0]), int(case["key"][1]))
    Ck = {k: float(c) for k, c in zip(KEYS21, case["coefs"])}
    lg = logging.getLogger("cij")
    old_level, old_handlers, old_prop = lg.level, list(lg.handlers), lg.propagate
    if case.get("debug_log"):
        # `cij run --debug DEBUG`: verbosity is a user option and must not change any number
        lg.setLevel(logging.DEBUG)
        lg.handlers = [logging.NullHandler()]
        lg.propagate = False
        for name in ("cij.core.phonon_contribution.shear", "cij.core.tasks"):
            logging.getLogger(name).setLevel(logging.NOTSET)
    try:
        res, want, _, _, _ = solve_with_reference(ctx, U, key, Ck, case["strain"], case)
    finally:
        lg.setLevel(old_level)
        lg.handlers = old_handlers
        lg.propagate = old_prop
    scale = max(1.0, max(abs(c) for c in case["coefs"]))
    if abs(res - want) > 1e-11 * scale:
        raise PropertyViolation("C03/value/key=%s" % case["key"], "random tensor: solver %r, tensor %r" % (res, want), case)


def sub_random(ctx):
    def body(case):
        random_oracle(ctx, case)
        ctx.case({"key": case["key"], "coefs": case["coefs"][:3] + ["..."], "strain": case["strain"]}, True,
                 classes=["random", "key-" + case["key"], "single-triple" if case.get("single_triple") else "strain-table",
                          "debug-logging" if case.get("debug_log") else "default-logging",
                          "integer-strain-array" if case.get("int_strain") else "float-strain-array"], key=case)

    ctx.run_given(body, random_cases(), max_examples=ctx.n(400, 40000))


def subchecks(ctx):
    return [("basis", sub_basis), ("random", sub_random)]


def replay(ctx, payload):
    import cij.util as U
    case = payload["case"]
    if "coefs" in case:
        random_oracle(ctx, case)
    else:
        key = (int(case["key"][0]), int(case["key"][1]))
        b = (int(case["basis"][0]), int(case["basis"][1]))
        res, want, *_ = solve_with_reference(ctx, U, key, {b: 1.0}, case["strain"], case)
        if abs(res - want) > 1e-11:
            raise PropertyViolation("C03/value/key=%s" % case["key"], "basis %s: %r vs %r" % (case["basis"], res, want), case)
