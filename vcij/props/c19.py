"""C19 - extract and extract-geotherm return table values faithfully.

Tables are written with qha's own save_x_tp (the producer cij uses) from smooth known functions g(T,P).
extract: exactly the row (column) with the nearest label, labelled by the other coordinate.  extract-geotherm:
the table entry at grid nodes; between nodes an error against g that shrinks when the grid is refined.
"""
import os
import shutil
import tempfile
import warnings

import numpy as np
from hypothesis import strategies as st

from .. import PropertyViolation
from ..tables import parse_frame_stdout

ID = "C19"
SHARDS = {"quick": 8, "thorough": 16}
RULE = ("tables of 1-4 variables (documented file-name patterns) on grids of 9-33 temperatures x 9-33 pressures from smooth "
        "g(T,P); requested T or P anywhere in range but not within 1 % of a half-way point; geotherm files with 3-30 rows "
        "(extra depth column; numbers written as floats or as whole numbers without decimal point) through grid nodes, a few 1e-6 (relative) next to them, and between them (extract-geotherm is run twice and followed by extract in the same process); non-trivial = >= 2 variables or a request strictly between "
        "nodes; distinct by the drawn case")
ASSUMPTIONS = [
    "printed precision of pandas to_string: 5e-6*max(1,|x|)",
    "convergence clause: err(2n-1 points) <= 0.5*err(n points) + 5e-6*scale for smooth g",
]

VARS = [("c11s", "c11s_tp_gpa.txt"), ("c12s", "c12s_tp_gpa.txt"), ("c44t", "c44t_tp_gpa.txt"), ("bm_VRH", "bm_VRH_tp_gpa.txt"),
        ("G_VRH", "G_VRH_tp_gpa.txt"), ("v_p", "v_p_tp_km_s.txt"), ("v_s", "v_s_tp_km_s.txt"), ("v", "v_tp_ang3.txt")]


def gfun(k, seed):
    rng = np.random.default_rng(seed * 31 + k)
    a, b, c, d, e = rng.uniform(0.5, 2.0, 5)
    return lambda T, P: 100 * a + 3 * b * P - 0.01 * c * T + 2e-4 * d * T * P / 10 + 5 * e * np.sin(T / 900.0 + P / 60.0)


@st.composite
def cases(draw):
    nt = draw(st.integers(9, 33))
    npr = draw(st.integers(9, 33))
    nvar = draw(st.integers(1, 4))
    vs = draw(st.permutations(list(range(len(VARS)))))[:nvar]
    return {"nt": nt, "np": npr, "vars": list(vs), "seed": draw(st.integers(0, 10 ** 6)),
            "t0": draw(st.sampled_from([0.0, 300.0])), "dt": draw(st.sampled_from([10.0, 50.0, 100.0, 37.5])),
            "p0": draw(st.sampled_from([0.0, -5.0, 10.0])), "dp": draw(st.sampled_from([0.5, 1.0, 2.5, 5.0])),
            "mode": draw(st.sampled_from(["T", "P"])), "frac": draw(st.floats(0.0, 1.0)),
            "cell_frac": draw(st.one_of(st.just(0.0), st.floats(0.02, 0.48), st.floats(0.52, 0.98))),
            "hide": draw(st.booleans()), "geo_rows": draw(st.integers(3, 30)), "geo_nodes": draw(st.booleans()),
            # how the numbers of the geotherm file are written: floats, or whole numbers without a decimal point
            "geo_fmt": draw(st.sampled_from(["float", "float", "int", "int-PT"])),
            # geotherm points a few 1e-6 (relative) away from grid nodes: not nodes
            "geo_near": draw(st.sampled_from([False, False, True]))}


def write_tables(d, c, nt=None, npr=None):
    from cij.io.traditional.qha_output import save_x_tp
    nt = nt or c["nt"]
    npr = npr or c["np"]
    # same physical range, possibly refined
    T = np.linspace(c["t0"], c["t0"] + c["dt"] * (c["nt"] - 1), nt)
    P = np.linspace(c["p0"], c["p0"] + c["dp"] * (c["np"] - 1), npr)
    Text = np.concatenate([T, T[-1] + (T[1] - T[0]) * np.arange(1, 5)])
    tabs = {}
    for k in c["vars"]:
        name, fname = VARS[k]
        g = gfun(k, c["seed"])
        val = g(Text[:, None], P[None, :])
        save_x_tp(val, Text, P, P, os.path.join(d, fname))
        tabs[name] = g
    # a volume-base file that must never be picked up
    open(os.path.join(d, "c11s_tv_gpa.txt"), "w").write("T(K)\\V(A^3) 1.0\n0.0 9.9e+99\n")
    return T, P, tabs


def run_cli(d, main, args):
    from click.testing import CliRunner
    old = os.getcwd()
    os.chdir(d)
    try:
        with warnings.catch_warnings():
            warnings.simplefilter("ignore")
            return CliRunner().invoke(main, args)
    finally:
        os.chdir(old)


def close(a, b):
    return abs(a - b) <= 5.5e-6 * max(1.0, abs(b))


def extract_oracle(ctx, c):
    import cij.cli.extract
    from ..datasets import reused_dir
    d = reused_dir("c19")              # the same directory as the previous case, tables rewritten
    try:
        T, P, tabs = write_tables(d, c)
        names = [VARS[k][0] for k in c["vars"]]
        axis = T if c["mode"] == "T" else P
        i = int(round(c["frac"] * (len(axis) - 2)))
        req = axis[i] + c["cell_frac"] * (axis[i + 1] - axis[i])
        want_i = i if c["cell_frac"] < 0.5 else i + 1
        args = ["-v", ",".join(names), "-" + c["mode"], repr(float(req))] + (["-h"] if c["hide"] else [])
        res = run_cli(d, cij.cli.extract.main, args)
    finally:
        pass
    if res.exit_code != 0:
        raise PropertyViolation("C19/extract/failed", "cij extract failed: %r" % (res.exception,), c)
    text = res.output
    lines = [l for l in text.splitlines() if l.strip()]
    if not c["hide"]:
        if lines[0].split() != names:
            raise PropertyViolation("C19/extract/header", "header %r, expected %r" % (lines[0].split(), names), c)
        lines = lines[1:]
    other = P if c["mode"] == "T" else T
    if len(lines) != len(other):
        raise PropertyViolation("C19/extract/rows", "%d rows, expected %d" % (len(lines), len(other)), c)
    for j, l in enumerate(lines):
        tok = [float(x) for x in l.split()]
        if len(tok) != 1 + len(names) or not close(tok[0], other[j]):
            raise PropertyViolation("C19/extract/label", "row %d labelled %r, expected %r" % (j, tok[:1], other[j]), c)
        for n, name in enumerate(names):
            g = tabs[name]
            want = g(T[want_i], other[j]) if c["mode"] == "T" else g(other[j], P[want_i])
            if not close(tok[1 + n], want):
                raise PropertyViolation("C19/extract/value/%s" % c["mode"], "%s at %s=%r (nearest node %r), %r: got %r, table entry %r" % (
                    name, c["mode"], req, axis[want_i], other[j], tok[1 + n], float(want)), c)
    return c["cell_frac"] != 0.0


def geotherm_text(c, T, P, rng):
    n = c["geo_rows"]
    if c["geo_nodes"]:
        it = rng.integers(0, len(T), n)
        ip = rng.integers(0, len(P), n)
        gt, gp = T[it], P[ip]
    else:
        gp = np.sort(rng.uniform(P[0], P[-1], n))
        gt = np.sort(rng.uniform(T[0], T[-1], n))
    depth = np.linspace(10.0, 2800.0, n)
    fmt = c.get("geo_fmt", "float")
    at_nodes = c["geo_nodes"]
    if c["geo_nodes"] and c.get("geo_near"):
        fmt = "float"
        at_nodes = False
        gp = np.clip(gp * (1.0 + rng.choice([-1.0, 1.0], n) * rng.uniform(1e-6, 9e-6, n)), P[0], P[-1])
        gt = np.clip(gt * (1.0 + rng.choice([-1.0, 1.0], n) * rng.uniform(1e-6, 9e-6, n)), T[0], T[-1])
    if fmt != "float":
        # whole-number P and T (a geotherm typed by hand): still inside the tabulated range
        gp2 = np.clip(np.round(gp), np.ceil(P[0]), np.floor(P[-1]))
        gt2 = np.clip(np.round(gt), np.ceil(T[0]), np.floor(T[-1]))
        at_nodes = at_nodes and np.array_equal(gp2, gp) and np.array_equal(gt2, gt)
        gp, gt = gp2, gt2
        if fmt == "int":
            depth = np.round(depth)
    w = lambda x, whole: ("%d" % int(x)) if whole else repr(float(x))
    rows = ["    P      D     T"] + ["%s %s %s" % (w(p, fmt != "float"), w(dd, fmt == "int"), w(t, fmt != "float")) for p, dd, t in zip(gp, depth, gt)]
    return "\n".join(rows) + "\n", gt, gp, depth, at_nodes


def geotherm_oracle(ctx, c):
    import cij.cli.geotherm
    names = [VARS[k][0] for k in c["vars"]]
    rng = np.random.default_rng(c["seed"])
    errs = []
    gtext = None
    for refine in (1, 2):
        from ..datasets import reused_dir
        d = reused_dir("c19")
        try:
            T, P, tabs = write_tables(d, c, nt=(c["nt"] - 1) * refine + 1, npr=(c["np"] - 1) * refine + 1)
            if gtext is None:
                gtext, gt, gp, depth, at_nodes = geotherm_text(c, T, P, rng)
            open(os.path.join(d, "geotherm.txt"), "w").write(gtext)
            res = run_cli(d, cij.cli.geotherm.main, ["-g", "geotherm.txt", "-v", ",".join(names)])
            if refine == 1 and res.exit_code == 0:
                # the same command again, and extract afterwards, in the same process on the unchanged files: same answers
                res_again = run_cli(d, cij.cli.geotherm.main, ["-g", "geotherm.txt", "-v", ",".join(names)])
                import cij.cli.extract
                t_req = float(T[len(T) // 2])
                res_ext = run_cli(d, cij.cli.extract.main, ["-v", names[0], "-T", repr(t_req), "-h"])
        finally:
            pass
        if res.exit_code != 0:
            raise PropertyViolation("C19/geotherm/failed", "cij extract-geotherm failed: %r" % (res.exception,), c)
        if refine == 1:
            if res_again.exit_code != 0 or res_again.output != res.output:
                raise PropertyViolation("C19/geotherm/second-run-differs", "extract-geotherm run twice on the same files gives another table", c)
            ok = res_ext.exit_code == 0
            if ok:
                rows = [l.split() for l in res_ext.output.splitlines() if l.strip()]
                want_row = tabs[names[0]](t_req, P)
                ok = len(rows) == len(P) and all(close(float(r[1]), w) for r, w in zip(rows, want_row))
            if not ok:
                raise PropertyViolation("C19/extract-after-geotherm", "cij extract -v %s -T %r after extract-geotherm in the same process does not return the table row" % (
                    names[0], t_req), c)
        cols, _, vals = parse_frame_stdout(res.output, index=False)
        if cols != ["P", "D", "T"] + names:
            raise PropertyViolation("C19/geotherm/header", "columns %r" % cols, c)
        if vals.shape != (c["geo_rows"], 3 + len(names)):
            raise PropertyViolation("C19/geotherm/rows", "output shape %r" % (vals.shape,), c)
        for j in range(c["geo_rows"]):
            if not (close(vals[j, 0], gp[j]) and close(vals[j, 1], depth[j]) and close(vals[j, 2], gt[j])):
                raise PropertyViolation("C19/geotherm/own-columns", "geotherm columns changed in row %d" % j, c)
        err = 0.0
        scale = 0.0
        for n, name in enumerate(names):
            want = tabs[name](gt, gp)
            scale = max(scale, float(np.max(np.abs(want))))
            dev = np.abs(vals[:, 3 + n] - want)
            if at_nodes:
                bad = [j for j in range(len(dev)) if not close(vals[j, 3 + n], want[j])]
                if bad:
                    j = bad[0]
                    raise PropertyViolation("C19/geotherm/node-value", "%s at grid node (P=%r, T=%r): got %r, table entry %r" % (
                        name, gp[j], gt[j], vals[j, 3 + n], float(want[j])), c)
            if c["geo_nodes"] and c.get("geo_near") and refine == 1:
                # next to a node every reasonable interpolant of the table gives the same value to printed precision:
                # own bicubic spline, with its distance to the bilinear interpolant as error scale
                from scipy.interpolate import RectBivariateSpline, RegularGridInterpolator
                tabv = tabs[name](T[:, None], P[None, :])
                cub = RectBivariateSpline(T, P, tabv, kx=3, ky=3, s=0).ev(gt, gp)
                lin = RegularGridInterpolator((T, P), tabv)(np.column_stack([gt, gp]))
                tol = 5.5e-6 * np.maximum(1.0, np.abs(cub)) + 3 * np.abs(cub - lin)
                bad = np.abs(vals[:, 3 + n] - cub) > tol
                if np.any(bad):
                    j = int(np.argmax(bad))
                    raise PropertyViolation("C19/geotherm/near-node-value", "%s at (P=%r, T=%r), a few 1e-6 (relative) away from a grid node: got %r, interpolated table %r (tolerance %.2g)" % (
                        name, gp[j], gt[j], vals[j, 3 + n], float(cub[j]), float(tol[j])), c)
            err = max(err, float(np.max(dev)))
        errs.append((err, scale))
        if at_nodes:
            break
    if not at_nodes:
        (e1, sc), (e2, _) = errs
        if e1 > 2e-3 * sc:
            raise PropertyViolation("C19/geotherm/accuracy", "interpolated value off by %.3g (scale %.3g)" % (e1, sc), c)
        if e2 > 0.5 * e1 + 5.5e-6 * max(1.0, sc):
            raise PropertyViolation("C19/geotherm/no-convergence", "error %.3g on the grid, %.3g on the refined grid" % (e1, e2), c)
    return True


def sub_extract(ctx):
    def body(c):
        between = extract_oracle(ctx, c)
        ctx.case(c, len(c["vars"]) >= 2 or between, classes=["extract-" + c["mode"], "between-nodes" if between else "at-node", "nvar=%d" % len(c["vars"])])

    ctx.run_given(body, cases(), max_examples=ctx.n(200, 5000))


def sub_geotherm(ctx):
    def body(c):
        geotherm_oracle(ctx, c)
        ctx.case(dict(c, geotherm=True), len(c["vars"]) >= 2 or not c["geo_nodes"],
                 classes=["geotherm-nodes" if c["geo_nodes"] else "geotherm-between", "nvar=%d" % len(c["vars"]), "geotherm-numbers=" + c.get("geo_fmt", "float")] + (["geotherm-next-to-nodes"] if c["geo_nodes"] and c.get("geo_near") else []))

    ctx.run_given(body, cases(), max_examples=ctx.n(120, 5000))


def subchecks(ctx):
    return [("extract", sub_extract), ("geotherm", sub_geotherm)]


def replay(ctx, payload):
    c = payload["case"]
    if payload.get("subcheck") == "geotherm":
        geotherm_oracle(ctx, c)
    else:
        extract_oracle(ctx, c)
