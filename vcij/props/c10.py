"""C10 - Voigt/standard index algebra is a canonical 21-class quotient of the 81 tuples.

Exhaustive enumeration of the finite domain against an own canonicaliser (sort within each
index pair, map the pair to its Voigt number with the table of the property text, sort the two
Voigt numbers).  Nothing here reads cij.util.voigt's tables.
"""
import itertools

from .. import PropertyViolation

ID = "C10"
LEVEL = "exploration"
EXHAUSTIVE = True
EXHAUSTIVE_NOTE = ("all 81 standard tuples, all 81x81 equality pairs, 36 Voigt pairs, their str/int 2- and "
                   "4-digit spellings, 9 strain pairs, 6 Voigt strain indices and the out-of-range shell "
                   "(one or more indices in {0,4..9,-1} resp. {0,7,8,9,-1}, wrong arities) are enumerated completely")
SHARDS = {"quick": 1, "thorough": 1}
RULE = ("exhaustive enumeration; one evaluation per spelling / per ordered pair of tuples / per rejected "
        "spelling; non-trivial = a spelling whose index tuple is not already in canonical order, a pair of "
        "different tuples, or an out-of-range spelling; distinct by the spelling itself")
ASSUMPTIONS = [
    "reference canonicaliser written from the property text (1->11,2->22,3->33,4->23,5->13,6->12)",
    "'rejected' means any exception is raised by the constructor",
]

PAIR2V = {(1, 1): 1, (2, 2): 2, (3, 3): 3, (2, 3): 4, (1, 3): 5, (1, 2): 6}
V2PAIR = {v: k for k, v in PAIR2V.items()}


def canon_pair(i, j):
    return PAIR2V[tuple(sorted((i, j)))]


def canon(i, j, k, l):
    return tuple(sorted((canon_pair(i, j), canon_pair(k, l))))


def _fail(bucket, msg, case):
    raise PropertyViolation("C10/" + bucket, msg, case)


def spellings_of_tuple(t):
    """All documented spellings of a standard 4-tuple."""
    s = "".join(map(str, t))
    return [("tuple4", list(t)), ("str4", s), ("int4", int(s))]


def spellings_of_voigt(p):
    s = "%d%d" % p
    return [("tuple2", list(p)), ("str2", s), ("int2", int(s))]


def build(c_, kind, val):
    if kind in ("tuple4", "tuple2", "etuple2", "args"):
        return c_(*val)
    return c_(val)


def check_spelling(ctx, cij_util, kind, val, expect_voigt):
    """One spelling of a modulus key -> all per-key clauses."""
    c_ = cij_util.c_
    case = {"kind": kind, "spelling": val}
    key = ctx.observe(build, c_, kind, val, _bucket="C10/modulus-ctor", _case=case)
    I, J = expect_voigt
    if tuple(key.voigt) != (I, J) or tuple(key.v) != (I, J):
        _fail("voigt-view", "%r -> voigt %r, expected %r" % (val, key.voigt, (I, J)), case)
    std = V2PAIR[I] + V2PAIR[J]
    if tuple(key.standard) != std or tuple(key.s) != std:
        _fail("standard-view", "%r -> standard %r, expected %r" % (val, key.standard, std), case)
    # round trips through both views
    if c_(*key.voigt) != key or c_(*key.standard) != key:
        _fail("roundtrip", "round trip through views changes %r" % (val,), case)
    if hash(c_(*key.voigt)) != hash(key) or hash(c_(*key.standard)) != hash(key):
        _fail("hash", "hash changes through views for %r" % (val,), case)
    # classification
    flags = (bool(key.is_longitudinal), bool(key.is_off_diagonal), bool(key.is_shear))
    want = (I == J and I <= 3, I != J and J <= 3, J >= 4)
    if flags != want:
        _fail("classification", "%r flags %r expected %r" % (val, flags, want), case)
    T = cij_util.ElasticModulusCalculationType
    want_type = T.LONGITUDINAL if want[0] else (T.OFF_DIAGONAL if want[1] else T.SHEAR)
    if key.calc_type != want_type:
        _fail("classification", "%r calc_type %r expected %r" % (val, key.calc_type, want_type), case)
    return key


def sub_enumerate(ctx):
    if not ctx.primary:
        return
    import cij.util as U
    c_, e_ = U.c_, U.e_
    idx = (1, 2, 3)
    tuples = list(itertools.product(idx, repeat=4))
    classes = {}
    for t in tuples:
        classes.setdefault(canon(*t), []).append(t)
    if len(classes) != 21:
        raise AssertionError("reference canonicaliser broken")

    keys = {}
    # --- 81 tuples x 3 spellings --------------------------------------------------------------
    for t in tuples:
        cv = canon(*t)
        for kind, val in spellings_of_tuple(t):
            k = check_spelling(ctx, U, kind, val, cv)
            nontriv = tuple(t) != V2PAIR[cv[0]] + V2PAIR[cv[1]]
            ctx.case({"kind": kind, "spelling": val, "class": list(cv)}, nontriv, classes=[kind])
            keys[t] = k
    # --- 36 Voigt pairs x 3 spellings ---------------------------------------------------------
    vkeys = {}
    for p in itertools.product(range(1, 7), repeat=2):
        cv = tuple(sorted(p))
        for kind, val in spellings_of_voigt(p):
            k = check_spelling(ctx, U, kind, val, cv)
            ctx.case({"kind": kind, "spelling": val, "class": list(cv)}, p != cv, classes=[kind])
            vkeys[p] = k
    # --- equality / hash over all pairs of tuples ----------------------------------------------
    for a in tuples:
        for b in tuples:
            same = canon(*a) == canon(*b)
            eq = keys[a] == keys[b]
            ne = keys[a] != keys[b]
            case = {"a": list(a), "b": list(b)}
            if eq != same or ne == same:
                _fail("equality", "%r == %r is %r, same class: %r" % (a, b, eq, same), case)
            if same and hash(keys[a]) != hash(keys[b]):
                _fail("hash", "equal keys %r %r hash differently" % (a, b), case)
            ctx.case({"pair": [list(a), list(b)], "same_class": same}, a != b, classes=["pair"])
    # Voigt pair spelling equals every tuple spelling of its class and no other
    for p, vk in vkeys.items():
        for t in tuples:
            same = tuple(sorted(p)) == canon(*t)
            if (vk == keys[t]) != same:
                _fail("equality", "voigt %r == tuple %r is %r" % (p, t, vk == keys[t]), {"a": list(p), "b": list(t)})
            if same and hash(vk) != hash(keys[t]):
                _fail("hash", "voigt %r and tuple %r hash differently" % (p, t), {"a": list(p), "b": list(t)})
    # number of distinct keys (by the code's own equality, via a set)
    distinct = set(keys.values()) | set(vkeys.values())
    if len(distinct) != 21:
        _fail("quotient", "%d distinct keys, expected 21" % len(distinct), {"n": len(distinct)})
    # --- multiplicity --------------------------------------------------------------------------
    total = 0
    for cv, members in sorted(classes.items()):
        k = c_(*cv)
        m = k.multiplicity
        total += m
        case = {"class": list(cv)}
        if m != len(members):
            _fail("multiplicity", "multiplicity of %r is %r, class has %d tuples" % (cv, m, len(members)), case)
        ctx.case({"multiplicity_of": list(cv), "value": m}, True, classes=["multiplicity"])
    if total != 81:
        _fail("multiplicity", "multiplicities sum to %d" % total, {"sum": total})
    # partition 3/3/15
    counts = [0, 0, 0]
    for k in distinct:
        counts[0] += bool(k.is_longitudinal)
        counts[1] += bool(k.is_off_diagonal)
        counts[2] += bool(k.is_shear)
    if counts != [3, 3, 15]:
        _fail("classification", "partition %r" % counts, {"counts": counts})

    # --- strain representation -------------------------------------------------------------------
    ekeys = {}
    for i, j in itertools.product(idx, repeat=2):
        v = canon_pair(i, j)
        for kind, val in (("etuple2", [i, j]), ("str", "%d%d" % (i, j)), ("int", 10 * i + j)):
            case = {"strain": True, "kind": kind, "spelling": val}
            e = ctx.observe(build, e_, kind, val, _bucket="C10/strain-ctor", _case=case)
            if e.voigt != v or e.v != v or tuple(e.standard) != V2PAIR[v] or tuple(e.s) != V2PAIR[v]:
                _fail("strain-view", "%r -> %r/%r expected %r/%r" % (val, e.voigt, e.standard, v, V2PAIR[v]), case)
            if e_(e.voigt) != e or e_(*e.standard) != e:
                _fail("strain-roundtrip", "round trip changes %r" % (val,), case)
            ekeys[(i, j)] = e
            ctx.case(case, i > j, classes=["strain-" + kind])
    for v in range(1, 7):
        case = {"strain": True, "kind": "voigt", "spelling": v}
        e = ctx.observe(e_, v, _bucket="C10/strain-ctor", _case=case)
        if e.voigt != v or tuple(e.standard) != V2PAIR[v]:
            _fail("strain-view", "%r -> %r/%r" % (v, e.voigt, e.standard), case)
        ctx.case(case, True, classes=["strain-voigt"])
    for a, b in itertools.product(ekeys, repeat=2):
        same = canon_pair(*a) == canon_pair(*b)
        if (ekeys[a] == ekeys[b]) != same or (same and hash(ekeys[a]) != hash(ekeys[b])):
            _fail("strain-equality", "%r vs %r" % (a, b), {"a": list(a), "b": list(b)})

    # --- out-of-range shell -----------------------------------------------------------------------
    def must_reject(ctor, kind, val, tag):
        case = {"reject": tag, "kind": kind, "spelling": val}
        try:
            got = build(ctor, kind, val)
        except Exception:
            ctx.case(case, True, classes=["rejected-" + tag])
            return
        _fail("out-of-range-accepted/" + tag, "%s %r accepted -> %r" % (kind, val, got), case)

    bad_std = (0, 4, 5, 6, 7, 8, 9)
    all_std = idx + bad_std
    for t in itertools.product(all_std, repeat=4):
        if all(x in idx for x in t):
            continue
        s = "".join(map(str, t))
        must_reject(c_, "tuple4", list(t), "standard")
        must_reject(c_, "str4", s, "standard")
        if t[0] != 0:
            must_reject(c_, "int4", int(s), "standard")
    for pos in range(4):
        t = [1, 2, 3, 1]
        t[pos] = -1
        must_reject(c_, "tuple4", t, "standard")
    # index pairs that are in range individually but do not exist? none: every (i,j) in 1..3 is valid
    bad_v = (0, 7, 8, 9)
    for p in itertools.product(tuple(range(1, 7)) + bad_v, repeat=2):
        if all(1 <= x <= 6 for x in p):
            continue
        must_reject(c_, "tuple2", list(p), "voigt")
        must_reject(c_, "str2", "%d%d" % p, "voigt")
        if p[0] != 0:
            must_reject(c_, "int2", 10 * p[0] + p[1], "voigt")
    for p in ([-1, 1], [1, -1], [-1, -1]):
        must_reject(c_, "tuple2", p, "voigt")
    # wrong arities
    for args in ([], [1], [1, 2, 3], [1, 1, 1, 1, 1], [1, 2, 3, 1, 2, 3]):
        must_reject(c_, "args", args, "arity")
    for s in ("", "1", "123", "11111", "112233"):
        must_reject(c_, "str", s, "arity")
    for n in (1, 123, 11111):
        must_reject(c_, "int", n, "arity")
    # strain shell
    for p in itertools.product(all_std, repeat=2):
        if all(x in idx for x in p):
            continue
        must_reject(e_, "etuple2", list(p), "strain")
        must_reject(e_, "str", "%d%d" % p, "strain")
        if p[0] != 0:
            must_reject(e_, "int", 10 * p[0] + p[1], "strain")
    for v in (0, 7, 8, 9, -1):
        must_reject(e_, "int", v, "strain")
    for s in ("", "123", "0", "7"):     # "1".."6" are one-digit Voigt spellings and legitimate
        must_reject(e_, "str", s, "strain")


def random_spellings_target(ctx):
    """Digit strings / ints of any length 0..6: differential against the own canonicaliser
    (accept <=> well-formed 2- or 4-digit in-range spelling, and then same class)."""
    import cij.util as U
    from hypothesis import strategies as st

    digits = st.text(alphabet="0123456789", min_size=0, max_size=6)

    def expected(s):
        if len(s) == 2 and all(c in "123456" for c in s):
            return tuple(sorted((int(s[0]), int(s[1]))))
        if len(s) == 4 and all(c in "123" for c in s):
            return canon(*map(int, s))
        return None

    def body(s, as_int):
        if as_int and (s == "" or s[0] == "0"):
            as_int = False
        val = int(s) if as_int else s
        want = expected(s)
        case = {"kind": "int" if as_int else "str", "spelling": val}
        try:
            k = U.c_(val)
        except Exception:
            k = None
        if want is None:
            if k is not None:
                raise PropertyViolation("C10/out-of-range-accepted/random", "%r accepted -> %r" % (val, k), case)
        else:
            if k is None:
                raise PropertyViolation("C10/modulus-ctor/random", "%r rejected" % (val,), case)
            if tuple(k.voigt) != want:
                raise PropertyViolation("C10/voigt-view", "%r -> %r expected %r" % (val, k.voigt, want), case)
        ctx.case(case, True, classes=["random-valid" if want else "random-invalid"])

    return body, (digits, st.booleans())


def sub_random_spellings(ctx):
    body, sts = random_spellings_target(ctx)
    ctx.run_given(body, *sts, max_examples=ctx.n(300, 20000))


def fuzz_targets(ctx):
    return {"random_spellings": random_spellings_target(ctx)}


def sub_fuzz(ctx):
    """thorough tier: coverage-guided search (atheris) through the same differential oracle"""
    if ctx.quick or not ctx.primary:
        return
    import sys
    ctx.run_fuzz(sys.modules[__name__], "random_spellings", runs=200000, max_time=60)


def subchecks(ctx):
    return [("enumerate", sub_enumerate), ("random_spellings", sub_random_spellings), ("fuzz", sub_fuzz)]


def replay(ctx, payload):
    """Every C10 case is a spelling (or pair); re-running the enumeration re-decides it."""
    sub_enumerate(ctx)
    case = payload.get("case") or {}
    if payload.get("subcheck") == "random_spellings" and "spelling" in case:
        import cij.util as U
        try:
            k = U.c_(case["spelling"])
        except Exception:
            k = None
        s = str(case["spelling"])
        ok2 = len(s) == 2 and all(c in "123456" for c in s)
        ok4 = len(s) == 4 and all(c in "123" for c in s)
        if (k is not None) != (ok2 or ok4):
            raise PropertyViolation(payload["bucket"], "spelling %r acceptance" % (s,), case)
