"""C12 - results are finite and real on the whole grid for every valid configuration.

Hypothesis sweeps the documented configuration space (7 interpolators x admissible orders, 9 systems, temperature
grids down to 0.5 K steps, with/without the optional sampling keys, BM order 3-5) on well-formed synthetic data
sets; validity predicates on dtype/finiteness and the T->0 limit.
"""
import warnings

import numpy as np
from hypothesis import strategies as st

from .. import PropertyViolation
from ..datasets import INTERPOLATORS, Dataset, Workdir, dataset_specs, materialise, place_pressures
from ..reftensor import is_positive_definite, tensor_from_keys

ID = "C12"
SHARDS = {"quick": 16, "thorough": 16}
RULE = ("Hypothesis draws a data set (5-9 volumes, 1-4 q-points, 1-3 atoms, power-law/polynomial ln nu(ln V), BM3 static energy, "
        "PD static tensor in the drawn crystal system with all its non-zero components, optional lattice block) and a "
        "configuration built field by field (interpolator x admissible order, T_MIN, DT 0.5-500, NT 1-8, NTV 16-41, volume_ratio, "
        "BM order 3-5, DT_SAMPLE/DELTA_P_SAMPLE present or absent, pressures placed inside the range reported by the qha package, with a "
        "10 % margin or with the lowest / highest one inside the first / last cell of the P(T,V) table; moduli on the (T,V) and (T,P) grids; volume_ratio 1.05-1.3 or exactly 1; one case in eight with a shear constant of "
        "1e-7..1e-4 of the stiff ones at one grid point, see C07); "
        "non-trivial = temperature rows below 5 K, or a non-default interpolator, or a shear key beyond 44/55/66; distinct by the drawn spec; "
        "(extreme) duck calculators whose spectrum holds 1-3 single entries of 1e-45..1e-17 or 1e6..1e30 cm^-1 (what a high-order "
        "extrapolation returns outside the sampled volumes): non-shear phonon parts finite")
ASSUMPTIONS = [
    "reachable pressure range taken from the third-party qha package run directly on the same arrays (10 % margin)",
    "positive definiteness decided by own eigvalsh of the Mandel matrix of the observed adiabatic tensor",
]


@st.composite
def cases(draw):
    s = draw(dataset_specs(interpolators=INTERPOLATORS, dt_range=(0.5, 500.0), max_nt=8, max_nq=3, max_na=2))
    s["explicit_dt_sample"] = draw(st.booleans())
    s["explicit_dp_sample"] = draw(st.booleans())
    s["bm_order"] = draw(st.integers(3, max(3, min(5, s["nv"] - 2))))
    s["soft_mode"] = draw(st.sampled_from([False, False, False, True]))
    # lowest / highest requested pressure inside the first / last cell of the computed P(T,V) table (still inside the range)
    s["edge"] = draw(st.sampled_from([None, None, "low", "high"]))
    if draw(st.integers(0, 7)) == 0:
        # positive definite but soft: one shear constant of 1e-7..1e-4 of the stiff ones at one grid point (see C07.soften)
        s["soften"] = "shear"
        s["soften_at"] = [draw(st.floats(0.0, 1.0)), draw(st.floats(0.0, 1.0))]
        s["soften_eps"] = draw(st.sampled_from([1e-7, 1e-6, 3e-5, 1e-4]))
        s["soften_key"] = draw(st.sampled_from([4, 5, 6]))
        s["system"] = draw(st.sampled_from(["orthorhombic", "hexagonal", "cubic"]))
        s["apply_system"] = False
    if draw(st.integers(0, 5)) == 0:
        s["ratio"] = 1.0            # the schema minimum of volume_ratio: the dense grid ends exactly at the sampled volumes
    s["low_t"] = draw(st.booleans())
    if s["low_t"]:
        s["tmin"] = 0.0
        s["dt"] = draw(st.floats(0.5, 2.0))
    return s


def classes_of(s):
    return ["interp-" + s["interpolator"], "system-" + s["system"], "lattice" if s["lattice"] else "no-lattice",
            "dt_sample-" + ("explicit" if s["explicit_dt_sample"] else "default"),
            "dp_sample-" + ("explicit" if s["explicit_dp_sample"] else "default"),
            "bm-order-%d" % s["bm_order"], "lowT" if s["low_t"] else "T-generic", "soft-mode" if s.get("soft_mode") else "no-soft-mode",
            "pressure-edge-%s" % s.get("edge"), "volume_ratio=1" if s["ratio"] == 1.0 else "volume_ratio>1",
            "softened-shear" if s.get("soften") else "not-softened"]


def tags_of(s, qs):
    """Discriminating configuration classes (for buckets / exclusion of open findings)."""
    tags = []
    if s["interpolator"] == "hermite":
        tags.append("interpolator=hermite")
    if s["interpolator"] == "akima":
        tags.append("interpolator=akima")
    if not s["explicit_dt_sample"] and s["dt"] > 100:
        tags.append("DT>default-DT_SAMPLE")
    if not s["explicit_dp_sample"] and qs is not None and qs["DELTA_P"] > 1:
        tags.append("DELTA_P>default-DELTA_P_SAMPLE")
    return tags


def build(s):
    ds = Dataset(s)
    r = place_pressures(ds, {"order": s["bm_order"]}, edge=s.get("edge"))
    if r is None:
        return ds, None
    qs = dict(r[0])
    if not s["explicit_dt_sample"]:
        qs.pop("DT_SAMPLE")
    if not s["explicit_dp_sample"]:
        qs.pop("DELTA_P_SAMPLE")
    if s.get("soften") and s["interpolator"] != "hermite":
        from .c07 import soften
        soften(s, ds, qs)
    return ds, qs


def oracle(ctx, s, ds, qs):
    import cij.core.calculator as cc
    case = s
    tags = tags_of(s, qs)
    tag = ("/" + tags[0]) if tags else ""
    with Workdir() as wd, warnings.catch_warnings(), np.errstate(all="ignore"):
        warnings.simplefilter("ignore")
        path, cfg = materialise(ds, wd, qs)
        try:
            calc = cc.Calculator(path)
        except Exception as e:  # noqa
            from ..runner import crash_site
            raise PropertyViolation("C12/crash%s/%s" % (tag, crash_site(e)), "Calculator failed: %s: %s" % (type(e).__name__, str(e)[:200]), case)
        T = np.asarray(calc.t_array, dtype=float)
        calc_v = np.asarray(calc.v_array, dtype=float)
        nt, ntv = len(T), len(calc.v_array)
        keys = [tuple(k.voigt) for k in calc.modulus_keys]
        iso = {tuple(k.voigt): np.asarray(v) for k, v in calc.modulus_isothermal.items()}
        adi = {tuple(k.voigt): np.asarray(v) for k, v in calc.modulus_adiabatic.items()}
        cv = np.asarray(calc.qha_calculator.volume_base.heat_capacity)
        vb = calc.volume_base
        derived = {}
        for name in ("bulk_modulus_voigt", "bulk_modulus_reuss", "bulk_modulus_voigt_reuss_hill", "shear_modulus_voigt",
                     "shear_modulus_reuss", "shear_modulus_voigt_reuss_hill", "primary_velocities", "secondary_velocities"):
            try:
                derived[name] = np.asarray(getattr(vb, name))
            except Exception as e:  # noqa
                from ..runner import crash_site
                raise PropertyViolation("C12/derived-crash%s/%s" % (tag, crash_site(e)), "%s failed: %s" % (name, e), case)
        # the (T,P) grid: the requested pressures are inside the computed range
        try:
            pb = calc.pressure_base
            iso_tp = {tuple(k.voigt): np.asarray(pb.modulus_isothermal[k]) for k in calc.modulus_keys}
            adi_tp = {tuple(k.voigt): np.asarray(pb.modulus_adiabatic[k]) for k in calc.modulus_keys}
        except Exception as e:  # noqa
            from ..runner import crash_site
            raise PropertyViolation("C12/pressure-base-crash%s/%s" % (tag, crash_site(e)), "pressure base failed: %s" % (e,), case)
    # ---- isothermal: real and finite everywhere --------------------------------------------------------
    for k, v in iso.items():
        if v.shape != (nt, ntv):
            raise PropertyViolation("C12/shape" + tag, "c%d%d isothermal has shape %r" % (k + (v.shape,)), case)
        if np.iscomplexobj(v):
            raise PropertyViolation("C12/complex" + tag, "c%d%d isothermal is complex-typed" % k, case)
        if not np.all(np.isfinite(v)):
            bad = np.argwhere(~np.isfinite(v))[0]
            raise PropertyViolation("C12/nonfinite-isothermal" + tag, "c%d%d isothermal not finite at (T=%g, iv=%d)" % (
                k[0], k[1], T[bad[0]], bad[1]), case)
    ok_cv = (cv > 0) | (T[:, None] == 0)
    for k, v in adi.items():
        if np.iscomplexobj(v):
            raise PropertyViolation("C12/complex" + tag, "c%d%d adiabatic is complex-typed" % k, case)
        if not np.all(np.isfinite(v[ok_cv])):
            raise PropertyViolation("C12/nonfinite-adiabatic" + tag, "c%d%d adiabatic not finite where C_V>0" % k, case)
    for k, v in iso_tp.items():
        if np.iscomplexobj(v) or not np.all(np.isfinite(v)):
            bad = np.argwhere(~np.isfinite(v))[0]
            raise PropertyViolation("C12/nonfinite-isothermal-tp" + tag, "c%d%d isothermal on the (T,P) grid not finite at (T=%g, ip=%d of %d)" % (
                k[0], k[1], T[bad[0]], bad[1], v.shape[1]), case)
    if np.all(ok_cv):
        for k, v in adi_tp.items():
            if np.iscomplexobj(v) or not np.all(np.isfinite(v)):
                raise PropertyViolation("C12/nonfinite-adiabatic-tp" + tag, "c%d%d adiabatic on the (T,P) grid not finite although C_V>0 everywhere" % k, case)
    # ---- averages and velocities finite where the stiffness is positive definite ---------------------------
    good = np.all(np.isfinite(np.stack([v for v in adi.values()])), axis=0)
    C = tensor_from_keys({k: np.where(good, v, 0.0) for k, v in adi.items()}, shape=(nt, ntv))
    pd = is_positive_definite(C) & good
    for name, arr in derived.items():
        if np.iscomplexobj(arr) or not np.all(np.isfinite(arr[pd])):
            raise PropertyViolation("C12/nonfinite-derived" + tag, "%s not finite/real where the stiffness is positive definite" % name, case)
    # ---- T -> 0 ------------------------------------------------------------------------------------------
    if T[0] == 0:
        # rows so cold that every mode is frozen out: h nu_min / k T >= 50 (exp(-50) ~ 2e-22), and at most 1 K
        try:
            nu = np.array(ds.nu(np.array(calc_v)), dtype=float)
            nu[..., 0, :3] = np.inf
            nu_min = float(np.min(nu))
        except Exception:
            nu_min = 30.0
        low = (T > 0) & (T <= min(1.0, 1.4387768775 * nu_min / 50.0))
        for k, v in iso.items():
            sc = np.max(np.abs(v[0]))
            if np.any(low) and np.max(np.abs(v[low] - v[0][None])) > 1e-6 * sc:
                raise PropertyViolation("C12/lowT-limit" + tag, "c%d%d(T<=1K) differs from c(0) by %.3g (scale %.3g)" % (
                    k[0], k[1], float(np.max(np.abs(v[low] - v[0][None]))), sc), case)
            a = adi[k]
            if not np.array_equal(a[0], v[0]):
                raise PropertyViolation("C12/T0-adiabatic" + tag, "adiabatic != isothermal at T=0 for c%d%d" % k, case)
    return {"keys": keys, "T": T, "pd_fraction": float(np.mean(pd))}


def sub_sweep(ctx):
    def body(s):
        ds, qs = build(s)
        if qs is None:
            ctx.stats.skip("unusable-dataset(non-monotonic P or range<1GPa)")
            return
        for t in tags_of(s, qs):
            if ctx.is_excluded("C12/class:" + t):
                return
        try:
            info = oracle(ctx, s, ds, qs)
        except PropertyViolation as v:
            tags = tags_of(s, qs)
            if tags:
                raise PropertyViolation("C12/class:" + tags[0], v.bucket + ": " + v.message, v.case)
            raise
        T = info["T"]
        nt = bool(np.any((T > 0) & (T < 5))) or s["interpolator"] != "lsq_poly" or any(k[1] >= 4 and k not in ((4, 4), (5, 5), (6, 6)) for k in info["keys"])
        cl = classes_of(s)
        if np.any((T > 0) & (T < 5)):
            cl.append("rows-below-5K")
        ctx.case(s, nt, classes=cl)

    ctx.run_given(body, cases(), max_examples=ctx.n(208, 8000), shrink=not ctx.quick)


def sub_examples(ctx):
    """Measured spectra: the shipped akimotoite example (diopside too in the thorough tier) under every interpolator x
    several orders and fine low-temperature grids; same validity predicates."""
    from ..datasets import ExampleDataset, write_input01, write_input02, write_settings
    import os
    names = ["akimotoite"] + ([] if ctx.quick else ["diopside"])
    jobs = []
    for n in names:
        for m in INTERPOLATORS:
            orders = [3] if ctx.quick else ([2, 3, 4, 5] if m in ("spline", "lsq_poly") else [2, 3, 4, 6, 7])
            for o in orders:
                for grid in (("coarse", 3, 300.0),) if ctx.quick else (("coarse", 3, 300.0), ("lowT", 6, 0.5)):
                    jobs.append((n, m, o, grid))
    import gc
    for j, (name, m, order, (gname, nt, dt)) in enumerate(jobs):
        # cij keeps three (nt, ntv, nq, np) arrays per task: diopside (150 q-points, 60 modes) needs several GB per
        # calculation, so it runs on two shards only (and on the coarse temperature grid); akimotoite on all shards
        if name == "diopside":
            if ctx.shard >= 2 or j % 2 != ctx.shard or gname != "coarse":
                continue
        elif j % ctx.nshards != ctx.shard:
            continue
        gc.collect()
        if ctx.is_excluded("C12/class:interpolator=%s" % m):
            continue
        try:
            ds = ExampleDataset(name)
        except FileNotFoundError:
            ctx.stats.skip("example-missing-" + name)
            continue
        if order >= ds.nv and m in ("spline", "lsq_poly", "lagrange", "krogh"):
            # not an admissible order: below the number of sampled volumes (for the two global polynomial methods an order
            # equal to the number of volumes means a polynomial through all of them, which cij's own comments call unstable
            # beyond six nodes - diopside, 7 volumes, order 7 returns frequencies of 1e216 cm^-1)
            continue
        ds.spec["interpolator"], ds.spec["order"] = m, order
        s = {"example": name, "interpolator": m, "order": order, "grid": gname, "nt": nt, "dt": dt, "tmin": 0.0,
             "explicit_dt_sample": True, "explicit_dp_sample": True, "system": ds.system, "lattice": True, "bm_order": 3, "low_t": gname == "lowT"}
        try:
            info = oracle(ctx, s, ds, ds.qha_settings(nt=nt, dt=dt))
        except PropertyViolation as v:
            tags = tags_of(s, None)
            if tags:
                raise PropertyViolation("C12/class:" + tags[0], v.bucket + ": " + v.message, v.case)
            raise
        ctx.case(s, True, classes=["example-" + name, "interp-" + m])


def extreme_oracle(ctx, s):
    """What an extrapolating interpolator can hand to the Bose factors outside the sampled volumes (a quintic spline on
    the diopside example returns 7e-45 and 6e32 cm^-1): positive, finite, but vanishing or huge frequencies of single
    modes at single volumes.  The moduli of the non-shear classes must stay finite (duck calculator, no reference)."""
    from ..duck import DuckCalculator, build_duck_spec
    from cij.core.phonon_contribution.nonshear import (
        LongitudinalElasticModulusPhononContribution as Lon, OffDiagonalElasticModulusPhononContribution as Off)
    full = build_duck_spec(s)
    rng = np.random.default_rng(s["seed"] ^ 0xE17)
    nu = full["nu"]
    ntv, nq, npm = nu.shape
    kinds = set()
    for _ in range(int(rng.integers(1, 4))):
        iq, m = int(rng.integers(0, nq)), int(rng.integers(0, npm))
        if iq == 0 and m < 3:
            m = 3 if npm > 3 else m
            if m < 3:
                iq = 1 if nq > 1 else iq
            if iq == 0 and m < 3:
                continue
        iv = int(rng.choice([0, ntv - 1, int(rng.integers(0, ntv))]))
        if rng.random() < 0.6:
            nu[iv, iq, m] = 10.0 ** rng.uniform(-45, -17)
            kinds.add("vanishing-frequency")
        else:
            nu[iv, iq, m] = 10.0 ** rng.uniform(6, 30)
            kinds.add("huge-frequency")
    if not kinds:
        return kinds
    duck = DuckCalculator(full)
    ei, ej = rng.uniform(0.2, 0.5, ntv), rng.uniform(0.2, 0.5, ntv)
    case = dict(s, extreme=True)
    with warnings.catch_warnings(), np.errstate(all="ignore"):
        warnings.simplefilter("ignore")
        for name, cls, e in (("c_ii", Lon, (ei, ei)), ("c_ij", Off, (ei, ej))):
            obj = ctx.observe(cls, duck, e, _bucket="C12/extreme/crash", _case=case)
            iso = np.asarray(ctx.observe(lambda: obj.value_isothermal, _bucket="C12/extreme/crash", _case=case))
            adi = np.asarray(ctx.observe(lambda: obj.value_adiabatic, _bucket="C12/extreme/crash", _case=case))
            if np.iscomplexobj(iso) or not np.all(np.isfinite(iso)):
                bad = np.argwhere(~np.isfinite(iso))[0]
                raise PropertyViolation("C12/extreme/nonfinite-isothermal", "%s isothermal phonon part not finite at (iT=%d, iv=%d) with %s" % (
                    name, bad[0], bad[1], "/".join(sorted(kinds))), case)
            if np.iscomplexobj(adi) or not np.all(np.isfinite(adi)):
                raise PropertyViolation("C12/extreme/nonfinite-adiabatic", "%s adiabatic phonon part not finite (C_V>0 everywhere) with %s" % (
                    name, "/".join(sorted(kinds))), case)
    return kinds


def sub_extreme(ctx):
    from ..duck import duck_specs

    def body(s):
        kinds = extreme_oracle(ctx, s)
        ctx.case(dict(s, extreme=True), bool(kinds), classes=["extreme-frequencies"] + sorted(kinds))

    ctx.run_given(body, duck_specs(max_nq=3, max_na=2), max_examples=ctx.n(160, 8000))


def subchecks(ctx):
    return [("sweep", sub_sweep), ("examples", sub_examples), ("extreme", sub_extreme)]


def replay(ctx, payload):
    s = payload["case"]
    if s.get("extreme"):
        extreme_oracle(ctx, {k: v for k, v in s.items() if k != "extreme"})
        return
    if "example" in s:
        from ..datasets import ExampleDataset
        ds = ExampleDataset(s["example"])
        ds.spec["interpolator"], ds.spec["order"] = s["interpolator"], s["order"]
        oracle(ctx, s, ds, ds.qha_settings(nt=s["nt"], dt=s["dt"]))
        return
    ds, qs = build(s)
    if qs is None:
        return
    try:
        oracle(ctx, s, ds, qs)
    except PropertyViolation as v:
        tags = tags_of(s, qs)
        if tags:
            raise PropertyViolation("C12/class:" + tags[0], v.bucket + ": " + v.message, v.case)
        raise
