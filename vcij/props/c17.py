"""C17 - input files round-trip: phonon data write/read, static table parse, fill output.

Round-trip oracles: write_energy -> read_energy returns what was written (to the written precision); an own
writer for static tables (format of the shipped examples) -> read_elast_data returns the truth exactly with
canonical keys; `cij fill` output re-parsed equals the own symmetric completion of the input.
"""
import os
import re
import shutil
import tempfile
import warnings

import numpy as np
from hypothesis import strategies as st

from .. import PropertyViolation
from ..fillhelp import random_invariant
from ..reflaue import SYSTEMS, complete, nonzero_pattern
from ..reftensor import KEYS21, PAIR_OF_VOIGT

ID = "C17"
SHARDS = {"quick": 8, "thorough": 16}
RULE = ("(phonon) data sets with 1-12 volumes, 1-10 q-points, 3-60 modes, values of either sign up to 1e5, weights >= 0, any nm/na; "
        "(static) tables with any component subset/order, key spellings c11 / C11 / c_11 / c1123 (4-digit) / 11 / Cij11 / cij_11 / K11 / el-11, any line introducing the lattice block, 1-10 rows, optional "
        "lattice block, trailing blanks/tabs, rows in decreasing / increasing / shuffled volume order, numbers with or without a decimal "
        "point; (command) nine systems, sufficient subsets, tables in floats or in whole numbers obeying the symmetry, or complete / sufficient tables obeying it only to 1e-3 / 5e-3 GPa (then compared with read_elast_data + apply_symetry_on_elast_data at the precision printed), re-parse of stdout; non-trivial = "
        "np != 3*na or negative values or > 1 q-point; table with upper-case/prefixed/4-digit keys and a lattice block; any command case; "
        "distinct by the drawn case")
ASSUMPTIONS = [
    "written precision: 6 decimals for P, V, E, frequencies, weights; 4 decimals for q coordinates",
    "pandas to_string prints 6 significant decimals: command output compared at 5e-6*max(1,|x|)",
]


# ---------------------------------------------------------------------------------------------------------
@st.composite
def phonon_cases(draw):
    nv = draw(st.integers(1, 12))
    nq = draw(st.integers(1, 10))
    npm = draw(st.integers(3, 60))
    tie = draw(st.booleans())
    na = npm // 3 if tie and npm % 3 == 0 else draw(st.integers(1, 20))
    nm = draw(st.integers(1, 8))
    seed = draw(st.integers(0, 2 ** 32 - 1))
    mag = draw(st.sampled_from([1.0, 1e2, 1e5]))
    return {"nv": nv, "nq": nq, "np": npm, "na": na, "nm": nm, "seed": seed, "mag": mag,
            "comment": draw(st.sampled_from(["QHA Input data", "x", "1 2 3", "data set  with  spaces", "nv nq np nm na"]))}


def phonon_oracle(ctx, c):
    from cij.io.traditional import models
    from cij.io.traditional.qha_input import read_energy, write_energy
    rng = np.random.default_rng(c["seed"])
    nv, nq, npm = c["nv"], c["nq"], c["np"]
    mag = c["mag"]
    P = rng.uniform(-mag, mag, nv)
    V = rng.uniform(1.0, mag * 10, nv)
    E = rng.uniform(-mag, mag, nv)
    F = rng.uniform(-mag, mag, (nv, nq, npm))
    Q = rng.uniform(-1, 1, (nq, 3))
    QV = Q[None, :, :] + (rng.uniform(-0.05, 0.05, (nv, nq, 3)) if c.get("q_per_volume", True) else 0.0)   # Cartesian q of a strained cell
    W = rng.uniform(0, 10, nq)
    W[rng.random(nq) < 0.2] = 0.0
    vols = [models.VolumeData(float(P[i]), float(V[i]), float(E[i]),
                              [models.QPointData(tuple(float(x) for x in QV[i, j]), [float(x) for x in F[i, j]]) for j in range(nq)]) for i in range(nv)]
    weights = [models.QPointWeight(tuple(float(x) for x in Q[j]), float(W[j])) for j in range(nq)]
    data = models.QHAInputData(nv, nq, npm, c["nm"], c["na"], weights, vols)
    from ..datasets import reused_dir
    d = reused_dir("c17")               # same path as the previous case, rewritten
    path = os.path.join(d, "input01")
    ctx.observe(write_energy, path, data, c["comment"], _bucket="C17/phonon/write-crash", _case=c)
    first = ctx.observe(read_energy, path, _bucket="C17/phonon/read-crash", _case=c)
    # what a caller does with one parse must not change the next parse of the same file
    first.volumes[:] = first.volumes[:1]
    first.weights[:] = []
    back = ctx.observe(read_energy, path, _bucket="C17/phonon/read-crash", _case=c)
    if (back.nv, back.nq, back.np, back.nm, back.na) != (nv, nq, npm, c["nm"], c["na"]):
        raise PropertyViolation("C17/phonon/counts", "counts read back as %r" % ((back.nv, back.nq, back.np, back.nm, back.na),), c)
    if len(back.volumes) != nv or len(back.weights) != nq:
        raise PropertyViolation("C17/phonon/lengths", "%d volumes, %d weights read back" % (len(back.volumes), len(back.weights)), c)
    for i, v in enumerate(back.volumes):
        for got, want, nm in ((v.pressure, P[i], "P"), (v.volume, V[i], "V"), (v.energy, E[i], "E")):
            if abs(got - want) > 5.1e-7:
                raise PropertyViolation("C17/phonon/pve", "%s of volume %d: %r vs %r" % (nm, i, got, want), c)
        if len(v.q_points) != nq:
            raise PropertyViolation("C17/phonon/lengths", "volume %d has %d q-points" % (i, len(v.q_points)), c)
        for j, qp in enumerate(v.q_points):
            if np.max(np.abs(np.array(qp.coord) - QV[i, j])) > 5.1e-5:
                raise PropertyViolation("C17/phonon/q-coordinates", "q-point %d of volume %d: %r vs %r" % (j, i, qp.coord, QV[i, j].tolist()), c)
            if len(qp.modes) != npm or np.max(np.abs(np.array(qp.modes) - F[i, j])) > 5.1e-7:
                raise PropertyViolation("C17/phonon/frequencies", "frequencies of q-point %d, volume %d differ" % (j, i), c)
    for j, w in enumerate(back.weights):
        if np.max(np.abs(np.array(w.coord) - Q[j])) > 5.1e-7 or abs(w.weight - W[j]) > 5.1e-7:
            raise PropertyViolation("C17/phonon/weights", "weight %d: %r vs %r" % (j, (w.coord, w.weight), (Q[j].tolist(), W[j])), c)


def phonon_target(ctx):
    def body(c):
        phonon_oracle(ctx, c)
        ctx.case(c, c["np"] != 3 * c["na"] or c["nq"] > 1, classes=["phonon", "np=3na" if c["np"] == 3 * c["na"] else "np!=3na", "mag=%g" % c["mag"]])

    return body, (phonon_cases(),)


def sub_phonon(ctx):
    body, sts = phonon_target(ctx)
    ctx.run_given(body, *sts, max_examples=ctx.n(1200, 100000))


# ---------------------------------------------------------------------------------------------------------
STYLES = ["c", "C", "c_", "C_", "c4", "mixed", "", "Cij", "cij_", "K", "el-"]      # any prefix without digits, also none


def spell(key, style, j=0):
    I, J = key
    if style == "mixed":
        style = STYLES[j % 5]
    if style == "c4":
        return "c%d%d%d%d" % (PAIR_OF_VOIGT[I] + PAIR_OF_VOIGT[J])
    return "%s%d%d" % (style, I, J)


@st.composite
def static_cases(draw):
    n = draw(st.integers(1, 21))
    order = draw(st.permutations(list(range(21))))[:n]
    nrows = draw(st.integers(1, 10))
    return {"keys": [list(KEYS21[i]) for i in order], "nrows": nrows, "style": draw(st.sampled_from(STYLES)),
            "lattice": draw(st.booleans()), "trail": draw(st.sampled_from(["", " ", "\t", "   \t "])),
            "seed": draw(st.integers(0, 2 ** 32 - 1)), "blank_end": draw(st.booleans()),
            "header_word": draw(st.sampled_from(["V", "v", "Volume", "V(bohr3)"])), "zero_cols": draw(st.booleans()),
            # rows as tabulated: any volume order; numbers with or without a decimal point
            "vol_order": draw(st.sampled_from(["decreasing", "decreasing", "increasing", "shuffled"])),
            "numbers": draw(st.sampled_from(["float", "float", "whole"])),
            # the line that introduces the lattice block is free text (the reader skips it)
            "lat_header": draw(st.sampled_from([" lattice_a lattice_b lattice_c", " lattice_a lattice_b lattice_c", "a b c", "# axis lengths (bohr)",
                                                "   a(bohr)   b(bohr)   c(bohr)"]))}


def write_static(path, c, vols, tab, lat, vref, mass):
    names = [spell(tuple(k), c["style"], j) for j, k in enumerate(c["keys"])]
    t = c["trail"]
    lines = ["static table %s" % c["style"] + t, "%r %d %r" % (vref, len(vols), mass) + t, c["header_word"] + " " + " ".join(names) + t]
    num = (lambda x: "%d" % int(x)) if c.get("numbers") == "whole" else (lambda x: repr(float(x)))
    for i in range(len(vols)):
        lines.append(num(vols[i]) + "  " + "  ".join(num(x) for x in tab[i]) + t)
    if c["lattice"]:
        lines.append(c.get("lat_header", " lattice_a lattice_b lattice_c") + t)
        for i in range(len(vols)):
            lines.append("  ".join(repr(float(x)) for x in lat[i]) + t)
    text = "\n".join(lines) + "\n" + ("\n" if c["blank_end"] else "")
    with open(path, "w") as fp:
        fp.write(text)
    return names


def static_oracle(ctx, c):
    from cij.io.traditional.elast_dat import read_elast_data
    import cij.util as U
    rng = np.random.default_rng(c["seed"])
    nrows, nk = c["nrows"], len(c["keys"])
    vols = np.sort(rng.uniform(50, 3000, nrows))[::-1]
    tab = rng.uniform(-500, 900, (nrows, nk))
    if c.get("zero_cols"):
        # symmetry-forbidden / placeholder components tabulated as zeros are still tabulated components
        z = rng.random(nk) < 0.3
        z[int(rng.integers(0, nk))] = True
        tab[:, z] = 0.0
    lat = rng.uniform(0.5, 12, (nrows, 3))
    vref, mass = float(rng.uniform(50, 3000)), float(rng.uniform(1, 2000))
    if c.get("numbers") == "whole":
        vols = np.sort(rng.choice(np.arange(50, 3000), nrows, replace=False).astype(float))[::-1]
        tab = np.round(tab)
    if c.get("vol_order") == "increasing":
        vols = vols[::-1].copy()
    elif c.get("vol_order") == "shuffled":
        vols = rng.permutation(vols)
    from ..datasets import reused_dir
    d = reused_dir("c17")
    path = os.path.join(d, "elast.dat")
    write_static(path, c, vols, tab, lat, vref, mass)
    first = ctx.observe(read_elast_data, path, _bucket="C17/static/read-crash", _case=c)
    # the package itself fills a parse in place (apply_symetry_on_elast_data): a later parse of the same file must still be
    # the tabulated data
    for i in range(len(first.volumes)):
        first.volumes[i] = type(first.volumes[i])(first.volumes[i].volume, {})
    first.lattice_parmeters[:] = []
    data = ctx.observe(read_elast_data, path, _bucket="C17/static/read-crash", _case=c)
    if data.vref != vref or data.nv != nrows or data.cellmass != mass:
        raise PropertyViolation("C17/static/header", "header read as %r" % ((data.vref, data.nv, data.cellmass),), c)
    if len(data.volumes) != nrows:
        raise PropertyViolation("C17/static/rows", "%d rows read" % len(data.volumes), c)
    want_keys = [U.c_(*k) for k in c["keys"]]
    for i, v in enumerate(data.volumes):
        if v.volume != float(vols[i]):
            raise PropertyViolation("C17/static/volume", "row %d volume %r vs %r" % (i, v.volume, vols[i]), c)
        got = v.static_elastic_modulus
        if list(got.keys()) != want_keys:
            raise PropertyViolation("C17/static/keys", "row %d keys %r, expected canonical %r" % (i, list(got.keys()), want_keys), c)
        for j, k in enumerate(want_keys):
            if got[k] != float(tab[i, j]):
                raise PropertyViolation("C17/static/value", "row %d %r: %r vs %r" % (i, k, got[k], tab[i, j]), c)
            if tuple(k.voigt) != tuple(sorted(c["keys"][j])):
                raise PropertyViolation("C17/static/keys", "key not canonical", c)
    if c["lattice"]:
        if len(data.lattice_parmeters) != nrows or any(tuple(a) != tuple(float(x) for x in b) for a, b in zip(data.lattice_parmeters, lat)):
            raise PropertyViolation("C17/static/lattice", "lattice block read as %r" % (data.lattice_parmeters[:2],), c)
    elif len(data.lattice_parmeters) != 0:
        raise PropertyViolation("C17/static/lattice", "lattice parameters invented", c)


def static_target(ctx):
    def body(c):
        static_oracle(ctx, c)
        ctx.case(c, c["style"] != "c" and c["lattice"], classes=["static", "style-" + c["style"], "lattice" if c["lattice"] else "no-lattice",
                                                                   "zero-columns" if c.get("zero_cols") else "no-zero-columns",
                                                                   "volumes-" + c.get("vol_order", "decreasing"), "numbers-" + c.get("numbers", "float"),
                                                                   "lattice-header-" + ("documented" if "lattice" in c.get("lat_header", "lattice") else "other")])

    return body, (static_cases(),)


def sub_static(ctx):
    body, sts = static_target(ctx)
    ctx.run_given(body, *sts, max_examples=ctx.n(600, 50000))


def fuzz_targets(ctx):
    return {"static": static_target(ctx), "phonon": phonon_target(ctx)}


def sub_fuzz(ctx):
    if ctx.quick or not ctx.primary:
        return
    import sys
    ctx.run_fuzz(sys.modules[__name__], "static", runs=100000, max_time=60)
    ctx.run_fuzz(sys.modules[__name__], "phonon", runs=100000, max_time=60)


# ---------------------------------------------------------------------------------------------------------
@st.composite
def command_cases(draw):
    system = draw(st.sampled_from(SYSTEMS))
    return {"system": system, "order": list(draw(st.permutations(list(range(21))))), "extra": draw(st.integers(0, 3)),
            "nrows": draw(st.integers(1, 8)), "seed": draw(st.integers(0, 2 ** 32 - 1)), "lattice": draw(st.booleans()),
            "upper": draw(st.booleans()), "trail": draw(st.sampled_from(["", " ", "\t"])),
            "numbers": draw(st.sampled_from(["float", "float", "whole"])),
            # entries that obey the symmetry only to a few 1e-3 GPa (accepted: the residual tolerance is 0.1)
            "perturb": draw(st.sampled_from([0.0, 0.0, 1e-3, 5e-3]))}


def command_oracle(ctx, c):
    from click.testing import CliRunner
    import cij.cli.fill
    from cij.io.traditional.elast_dat import read_elast_data
    from .c08 import subset_from_order
    system = c["system"]
    rng = np.random.default_rng(c["seed"])
    w = random_invariant(system, rng, c["nrows"])
    whole = c.get("numbers") == "whole"
    if whole:
        # a table typed in whole GPa that obeys the symmetry exactly: independent parameters are multiples of 4
        from ..fillhelp import natural_basis
        nat = natural_basis(system)
        w = (4.0 * rng.integers(-100, 100, (c["nrows"], nat.shape[1]))) @ nat.T
        whole = bool(np.allclose(w, np.round(w), atol=1e-9))
        w = np.round(w) if whole else w
    if system == "triclinic":
        keys = list(KEYS21)          # the triclinic relation set is empty: everything has to be supplied
        w = w + (np.abs(w) < 1.0) * 5.0
    else:
        keys = subset_from_order(system, c["order"], c["extra"])
    if c.get("perturb") and not whole and system != "triclinic" and c["seed"] % 2 == 0:
        # a complete table: every non-vanishing component is listed (nothing to add, nothing to drop)
        from ..reflaue import nonzero_pattern
        nzp = set(nonzero_pattern(system))
        keys = [KEYS21[i] for i in c["order"] if KEYS21[i] in nzp]
    idx = [KEYS21.index(k) for k in keys]
    vols = np.sort(rng.uniform(50, 3000, c["nrows"]))[::-1]
    if whole:
        vols = np.sort(rng.choice(np.arange(50, 3000), c["nrows"], replace=False).astype(float))[::-1]
    lat = rng.uniform(0.5, 12, (c["nrows"], 3))
    perturb = 0.0 if whole else c.get("perturb", 0.0)
    tab = w[:, idx] + (rng.uniform(-perturb, perturb, (c["nrows"], len(idx))) if perturb else 0.0)
    tab_unused = w[:, idx]          # exactly consistent (rounding redundant columns separately would contradict the relations by ~5e-4,
                             # and then the code's least-squares compromise and the reference projection legitimately differ)
    cc = {"keys": [list(k) for k in keys], "style": "C" if c["upper"] else "c", "lattice": c["lattice"], "trail": c["trail"],
          "blank_end": False, "header_word": "V", "numbers": "whole" if whole else "float"}
    d = tempfile.mkdtemp(prefix="cijc17-")
    try:
        path = os.path.join(d, "elast.dat")
        write_static(path, cc, vols, tab, lat, 777.5, 123.25)
        src = open(path).read()
        with warnings.catch_warnings():
            warnings.simplefilter("ignore")
            res = CliRunner().invoke(cij.cli.fill.main, ["-s", system, path])
            api = None
            if perturb:
                # "the symmetry-filled parse of its input" through the package's own API path
                from cij.io.traditional.elast_dat import apply_symetry_on_elast_data
                try:
                    api = read_elast_data(path)
                    apply_symetry_on_elast_data(api, {"system": system})
                except Exception:
                    api = False
        if perturb and api is False:
            if res.exit_code == 0:
                raise PropertyViolation("C17/command/accepted-what-the-api-refuses", "cij fill accepts a table apply_symetry_on_elast_data refuses", c)
            return len(keys)
        if res.exit_code != 0:
            raise PropertyViolation("C17/command/system=%s/failed" % system, "cij fill failed on a sufficient consistent table: %r" % (res.exception,), c)
        out = res.output
        out_path = os.path.join(d, "filled.dat")
        open(out_path, "w").write(out)
        parsed = ctx.observe(read_elast_data, out_path, _bucket="C17/command/output-unparsable", _case=c)
    finally:
        shutil.rmtree(d, ignore_errors=True)
    if out.splitlines()[:2] != src.splitlines()[:2]:
        raise PropertyViolation("C17/command/header", "header lines are not preserved", c)
    if c["lattice"]:
        tail_src = src.splitlines()[3 + c["nrows"]:]
        tail_out = out.splitlines()[-len(tail_src):]
        if tail_src != tail_out:
            raise PropertyViolation("C17/command/lattice-text", "lattice block is not re-emitted verbatim", c)
        if len(parsed.lattice_parmeters) != c["nrows"] or any(tuple(a) != tuple(float(x) for x in b) for a, b in zip(parsed.lattice_parmeters, lat)):
            raise PropertyViolation("C17/command/lattice", "lattice block of the output parses differently", c)
    elif parsed.lattice_parmeters:
        raise PropertyViolation("C17/command/lattice", "lattice parameters invented", c)
    if parsed.vref != 777.5 or parsed.nv != c["nrows"] or parsed.cellmass != 123.25:
        raise PropertyViolation("C17/command/header", "header of the output parses differently", c)
    if perturb:
        # printed precision read off the output itself: half a unit of the last printed decimal of each number
        toks = [l.split() for l in out.splitlines()[3: 3 + c["nrows"]]]
        heads = out.splitlines()[2].split()
        for i, v in enumerate(parsed.volumes):
            got = {tuple(k.voigt): x for k, x in v.static_elastic_modulus.items()}
            want = {tuple(k.voigt): x for k, x in api.volumes[i].static_elastic_modulus.items()}
            if sorted(got) != sorted(want):
                raise PropertyViolation("C17/command/perturbed/keys", "row %d: components %r, symmetry-filled parse of the input has %r" % (i, sorted(got), sorted(want)), c)
            prec = {}
            if len(toks) == c["nrows"] and len(toks[i]) == len(heads):
                for h, t in zip(heads, toks[i]):
                    m = re.fullmatch(r"[cC]_?(\d)(\d)", h)
                    if m and "." in t and "e" not in t.lower():
                        prec[tuple(sorted((int(m.group(1)), int(m.group(2)))))] = 0.51 * 10.0 ** (-len(t.split(".")[1]))
            for k in want:
                if abs(got[k] - want[k]) > prec.get(tuple(sorted(k)), 5e-6 * max(1.0, abs(want[k]))) + 1e-9:
                    raise PropertyViolation("C17/command/perturbed/value", "row %d c%d%d: output %r, symmetry-filled parse of the input %r" % (
                        i, k[0], k[1], got[k], want[k]), c)
        return len(keys)
    wref, d2 = complete(system, keys, tab)
    for i, v in enumerate(parsed.volumes):
        if abs(v.volume - vols[i]) > 5e-6 * vols[i]:
            raise PropertyViolation("C17/command/volume", "row %d volume %r vs %r" % (i, v.volume, vols[i]), c)
        got = {tuple(k.voigt): x for k, x in v.static_elastic_modulus.items()}
        for n, k in enumerate(KEYS21):
            col = wref[:, n]
            if np.all(np.abs(col) < 1e-8):
                if k in got and system != "triclinic":
                    raise PropertyViolation("C17/command/zero-present", "vanishing component c%d%d printed" % k, c)
                continue
            if k not in got:
                raise PropertyViolation("C17/command/system=%s/missing" % system, "component c%d%d missing from the output" % k, c)
            if abs(got[k] - col[i]) > 5e-6 * max(1.0, abs(col[i])) + 1e-9:
                raise PropertyViolation("C17/command/system=%s/value" % system, "row %d c%d%d: %r, symmetric completion %r" % (i, k[0], k[1], got[k], col[i]), c)
    return len(keys)


def sub_command(ctx):
    def body(c):
        nk = command_oracle(ctx, c)
        ctx.case(c, True, classes=["command", c["system"], "lattice" if c["lattice"] else "no-lattice", "numbers-" + c.get("numbers", "float"),
                                 "perturbed-%g" % c.get("perturb", 0.0)])

    ctx.run_given(body, command_cases(), max_examples=ctx.n(9 * 40, 9 * 2000))


def subchecks(ctx):
    return [("phonon", sub_phonon), ("static", sub_static), ("command", sub_command), ("fuzz", sub_fuzz)]


def replay(ctx, payload):
    c = payload["case"]
    sub = payload.get("subcheck")
    if sub == "phonon" or (sub == "fuzz" and "np" in c):
        phonon_oracle(ctx, c)
    elif sub == "static" or (sub == "fuzz" and "style" in c):
        static_oracle(ctx, c)
    else:
        command_oracle(ctx, c)
