"""C18 - run-static reports a consistent static EoS and elasticity table in every mode.

Oracle: own second-order finite-strain least-squares fit of E(V) (value and analytic derivative), own fits of the
(symmetry-completed) static table, VRH/velocities from vcij.reftensor, own unit constants; adaptive tolerance
(analytic derivative vs a replica of numpy.gradient on the command's own grid) for P; stdout parsed by own parser.
"""
import os
import warnings

import numpy as np
from hypothesis import strategies as st
from scipy.interpolate import CubicSpline
from scipy.optimize import brentq

from .. import PropertyViolation, refphys
from ..datasets import Dataset, ReusedWorkdir, Workdir, dataset_specs, write_input01, write_input02
from ..reflaue import complete
from ..refmodel import eulerian, lsq_poly, polyder_inc, polyval_inc
from ..reftensor import KEYS21, is_positive_definite, tensor_from_keys, vrh
from ..tables import parse_frame_stdout

ID = "C18"
SHARDS = {"quick": 8, "thorough": 16}
RULE = ("static data sets as C05 (5-9 volumes, BM3 energies, PD static tensors of nine systems), modes none/volume/pressure (the same two file paths rewritten for every case), grid "
        "sizes 11-401, pressure grids inside the fitted range (10 % margins), with/without static table (at its own volumes, at the phonon volumes, or at the phonon volumes printed with two decimals), -s system, --cellmass; "
        "non-trivial = pressure or volume mode with a static table and a non-cubic system; distinct by the drawn case")
ASSUMPTIONS = [
    "printed precision of pandas to_string (6 decimals): 5.5e-6*max(1,|x|)",
    "P: 3*|analytic derivative - numpy.gradient replica on the command's grid| + printed precision",
]
GCM3 = 1e-3 / refphys.NA / (refphys.A0_M * 100) ** 3 * 1e3      # (g/mol)/bohr^3 -> g/cm^3


@st.composite
def cases(draw):
    s = draw(dataset_specs(max_nq=1, max_na=1, max_nt=1, interpolators=["lsq_poly"]))
    # volumes of the static table: its own set, or the phonon volumes (identical, or printed with two decimals)
    s["static_vols"] = draw(st.sampled_from(["own", "own", "phonon", "phonon-2dec"]))
    s["mode"] = draw(st.sampled_from(["none", "volume", "pressure"]))
    s["n"] = draw(st.sampled_from([11, 21, 51, 101, 201, 401]))
    s["with_table"] = draw(st.sampled_from([True, True, True, False]))
    s["cellmass_opt"] = draw(st.one_of(st.none(), st.floats(5.0, 900.0)))
    s["pfrac"] = [draw(st.floats(0.12, 0.4)), draw(st.floats(0.15, 0.45))]
    s["sample"] = draw(st.sampled_from([None, None, 2, 3]))
    s["static_rows"] = draw(st.sampled_from(["as-is", "as-is", "reversed", "shuffled"]))     # the table has its own volume column
    s["big_energy"] = draw(st.sampled_from([False, False, True]))
    return s


def close(a, b, extra=0.0):
    return abs(a - b) <= 5.5e-6 * max(1.0, abs(b)) + extra


def oracle(ctx, s):
    from click.testing import CliRunner
    import cij.cli.static
    ds = Dataset(s)
    vols, E = ds.volumes, ds.energies
    ratio = s["ratio"]
    n = s["n"]
    v0 = vols[0]
    coef = lsq_poly(eulerian(v0, vols), E, 2)
    fit = lambda v: polyval_inc(coef, eulerian(v0, v))
    dfit = lambda v: polyval_inc(polyder_inc(coef), eulerian(v0, v)) * (-(1.0 / 3.0) * (v0 / np.asarray(v)) ** (2.0 / 3.0) / np.asarray(v))
    pbest = lambda v: -dfit(v)
    grid = np.linspace(vols.min() / ratio, vols.max() * ratio, n)
    pgrid_coarse = -np.gradient(fit(grid)) / np.gradient(grid)
    args = []
    mode = s["mode"]
    if mode == "pressure":
        plo, phi = float(pbest(grid[-1])), float(pbest(grid[0]))
        if not np.all(np.diff(pbest(grid)) < 0):
            return None
        R = phi - plo
        p_min = (plo + s["pfrac"][0] * R) * refphys.AU_TO_GPA
        top = p_min + s["pfrac"][1] * R * refphys.AU_TO_GPA
        delta_p = (top - p_min) / (n - 1)
        p_min, delta_p = float("%.6f" % p_min), float("%.8f" % delta_p)
        args += ["--p-min", repr(p_min), "--delta-p", repr(delta_p)]
        if s["sample"]:
            args += ["--delta-p-sample", repr(delta_p * s["sample"])]
    system = s["system"] if (s["apply_system"] and s["with_table"]) else None
    with ReusedWorkdir("c18") as wd, warnings.catch_warnings():      # same paths as the previous case, files rewritten
        warnings.simplefilter("ignore")
        f1 = os.path.join(wd, "input01")
        f2 = os.path.join(wd, "input02")
        write_input01(f1, ds)
        row_order = None
        if s.get("static_rows") == "reversed":
            row_order = list(range(ds.nv_static))[::-1]
        elif s.get("static_rows") == "shuffled":
            row_order = [int(x) for x in np.random.default_rng(s["seed"] ^ 0x99).permutation(ds.nv_static)]
        write_input02(f2, ds, row_order=row_order)
        argv = [f1] + ([f2] if s["with_table"] else []) + ["-I", mode, "-n", str(n), "--v-ratio", repr(ratio)] + args
        if system:
            argv += ["-s", system]
        if s["cellmass_opt"] is not None:
            argv += ["--cellmass", repr(s["cellmass_opt"])]
        res = CliRunner().invoke(cij.cli.static.main, argv)
    if res.exit_code != 0:
        from ..runner import crash_site
        site = crash_site(res.exception) if res.exception is not None and not isinstance(res.exception, SystemExit) else "exit"
        raise PropertyViolation("C18/mode=%s/failed/%s" % (mode, site), "cij run-static failed: %r" % (res.exception,), s)
    try:
        cols, idx, vals = parse_frame_stdout(res.output, index=True)
    except Exception as e:  # noqa
        raise PropertyViolation("C18/unparsable", "stdout cannot be parsed: %s" % e, s)
    col = {c: vals[:, i] for i, c in enumerate(cols)}
    for need in ("V", "F", "P"):
        if need not in col:
            raise PropertyViolation("C18/columns", "column %s missing (have %r)" % (need, cols), s)
    Vrow = col["V"] / refphys.BOHR3_TO_ANG3            # bohr^3 (to printed precision)
    # ---- rows ------------------------------------------------------------------------------------------------
    if mode == "none":
        if len(Vrow) != len(vols) or any(not close(a, b * refphys.BOHR3_TO_ANG3) for a, b in zip(col["V"], vols)):
            raise PropertyViolation("C18/mode=none/volumes", "V column is not the input volumes in A^3", s)
        wantF = E
        Vexact = np.array(vols, dtype=float)
    elif mode == "volume":
        if len(Vrow) != n or any(not close(a, b * refphys.BOHR3_TO_ANG3) for a, b in zip(col["V"], grid)):
            raise PropertyViolation("C18/mode=volume/volumes", "V column is not the %d-point volume grid in A^3" % n, s)
        wantF = fit(grid)
        Vexact = np.array(grid, dtype=float)
    else:
        Vexact = None
        step = s["sample"] or 1
        want_p = (p_min + delta_p * np.arange(n))[::step]
        if len(col["P"]) != len(want_p) or any(not close(a, b) for a, b in zip(col["P"], want_p)):
            raise PropertyViolation("C18/mode=pressure/pressures", "P column is not p_min + j*delta_p (sampled every %d)" % step, s)
        # V(P): root of the analytic fit; coarse: inverse spline through the gradient replica
        vb = np.array([brentq(lambda v: float(pbest(v)) - p * refphys.GPA_TO_AU, grid[0], grid[-1]) for p in want_p])
        inv = CubicSpline(pgrid_coarse[::-1], grid[::-1])
        vc = inv(want_p * refphys.GPA_TO_AU)
        tolv = 3 * np.max(np.abs(vb - vc)) + 5.5e-6 * vb          # error scale over the whole table, see C06
        if np.any(np.abs(Vrow - vb) > tolv):
            j = int(np.argmax(np.abs(Vrow - vb) - tolv))
            raise PropertyViolation("C18/mode=pressure/volume", "row %d: V=%r A^3 but P(V)=P gives %r A^3" % (
                j, col["V"][j], vb[j] * refphys.BOHR3_TO_ANG3), s)
        wantF = fit(Vrow)
        # F(P) and V(P) are interpolated separately on the command's grid: error scale = inconsistency of two independent
        # interpolations (cubic splines) on that same grid, largest over the rows, plus the volume tolerance times |dF/dV|
        Fc = CubicSpline(pgrid_coarse[::-1], fit(grid)[::-1])(want_p * refphys.GPA_TO_AU)
        interpF = 3 * float(np.max(np.abs(Fc - fit(vc)))) + 3 * float(np.max(np.abs(fit(vc) - fit(vb)))) + np.abs(dfit(Vrow)) * tolv
    # ---- F ---------------------------------------------------------------------------------------------------------
    gotF = col["F"] / refphys.RY_TO_EV
    slopeF = (np.abs(dfit(Vrow)) * 5.5e-6 * Vrow + interpF) if mode == "pressure" else 0.0
    # pandas prints 6 decimals in fixed notation (absolute 5e-7 eV); exponent notation (6 digits) only beyond 1e6
    wF = np.abs(wantF * refphys.RY_TO_EV)
    bad = np.abs(gotF - wantF) > (6e-7 + np.where(wF >= 1e6, 5.5e-7 * wF, 1e-12 * wF)) / refphys.RY_TO_EV + slopeF
    if np.any(bad):
        j = int(np.argmax(bad))
        raise PropertyViolation("C18/mode=%s/F" % mode, "row %d: F=%r eV, fit at the reported volume %r eV (V column %r)" % (
            j, col["F"][j], float(wantF[j] * refphys.RY_TO_EV), col["V"][j]), s)
    # ---- P ---------------------------------------------------------------------------------------------------------
    if mode != "pressure":
        pb = pbest(Vrow)
        if mode == "volume":
            pc = pgrid_coarse
        else:
            pc = CubicSpline(grid, pgrid_coarse)(Vrow)
        tol = (3 * np.abs(pb - pc)) * refphys.AU_TO_GPA + 5.5e-6 * np.maximum(1.0, np.abs(pb * refphys.AU_TO_GPA)) \
            + np.abs(CubicSpline(grid, pbest(grid))(Vrow, 1)) * 5.5e-6 * Vrow * refphys.AU_TO_GPA
        dev = np.abs(col["P"] - pb * refphys.AU_TO_GPA)
        if np.any(dev > tol):
            j = int(np.argmax(dev - tol))
            raise PropertyViolation("C18/mode=%s/P" % mode, "row %d: P=%r GPa, -dF/dV of the fit %r GPa (tolerance %.3g)" % (
                j, col["P"][j], float(pb[j] * refphys.AU_TO_GPA), float(tol[j])), s)
    if not s["with_table"]:
        extra = [c for c in cols if c not in ("V", "F", "P", "density")]
        if extra:
            raise PropertyViolation("C18/columns", "columns %r without a static table" % extra, s)
        if s["cellmass_opt"] is not None:
            wantd = s["cellmass_opt"] / Vrow * GCM3
            if "density" not in col or any(not close(a, b, 1.1e-5 * b) for a, b in zip(col["density"], wantd)):
                raise PropertyViolation("C18/density", "density column does not follow --cellmass", s)
        return {"noncubic": False}
    # ---- moduli --------------------------------------------------------------------------------------------------------
    sv = ds.static_volumes
    keys = list(ds.static_keys)
    tab = np.array([[ds.static_full[i, KEYS21.index(k)] for k in keys] for i in range(len(sv))])
    if system and system != "triclinic":
        w, _ = complete(system, keys, tab)
        cols_ref = {k: w[:, n_] for n_, k in enumerate(KEYS21) if not np.all(np.abs(w[:, n_]) < 1e-8)}
    else:
        cols_ref = {k: tab[:, j] for j, k in enumerate(keys)}
    fs = eulerian(sv[0], sv)
    # rows at known volumes (modes none / volume): the exact volume, not the printed one
    fr = eulerian(sv[0], Vrow if Vexact is None else Vexact)
    dfr = np.abs(-(1.0 / 3.0) * (sv[0] / Vrow) ** (2.0 / 3.0) / Vrow) * 5.5e-6 * Vrow       # d f / d V * printed error of V
    if Vexact is not None:
        dfr = dfr * 0.0
    mod = {}
    for k, c_ in cols_ref.items():
        cf = lsq_poly(fs, c_, 2)
        want = polyval_inc(cf, fr)
        slope = np.abs(polyval_inc(polyder_inc(cf), fr)) * dfr
        name = "c%d%d" % k
        if name not in col:
            raise PropertyViolation("C18/moduli/missing", "column %s missing" % name, s)
        bad = np.abs(col[name] - want) > 5.5e-6 * np.maximum(1.0, np.abs(want)) + slope + 2e-8
        if np.any(bad):
            j = int(np.argmax(bad))
            raise PropertyViolation("C18/moduli/value", "row %d %s=%r, finite-strain fit of the static table at that volume %r" % (
                j, name, col[name][j], float(want[j])), s)
        mod[k] = col[name]
    extra_c = [c for c in cols if c.startswith("c") and c[1:].isdigit() and (int(c[1]), int(c[2])) not in cols_ref]
    if extra_c:
        raise PropertyViolation("C18/moduli/unexpected", "columns %r not expected" % extra_c, s)
    # ---- density, VRH, velocities from the printed row -------------------------------------------------------------------
    mass = s["cellmass_opt"] if s["cellmass_opt"] is not None else s["cellmass"]
    wantd = mass / Vrow * GCM3
    if "density" not in col or any(not close(a, b, 1.1e-5 * b) for a, b in zip(col["density"], wantd)):
        raise PropertyViolation("C18/density", "density is not cell mass / volume in g/cm^3", s)
    ortho = [(1, 1), (2, 2), (3, 3), (1, 2), (1, 3), (2, 3), (4, 4), (5, 5), (6, 6)]
    if all(k in mod for k in ortho):
        C = tensor_from_keys(mod, shape=(len(Vrow),))
        pd = is_positive_definite(C)
        if np.any(pd):
            from ..reftensor import tensor_from_mandel
            C = np.where(pd[:, None, None, None, None], C, tensor_from_mandel(np.eye(6)))
            ref = vrh(C)
            rel = 3e-5      # inputs are printed numbers (6 decimals): relative error propagates through the inverse
            for name, key in (("bm_V", "KV"), ("bm_R", "KR"), ("bm_VRH", "K"), ("G_V", "GV"), ("G_R", "GR"), ("G_VRH", "G")):
                if name not in col:
                    raise PropertyViolation("C18/vrh/missing", "column %s missing" % name, s)
                bad = pd & (np.abs(col[name] - ref[key]) > rel * np.abs(ref[key]) + 1e-5)
                if np.any(bad):
                    j = int(np.argmax(bad))
                    raise PropertyViolation("C18/vrh/%s" % name, "row %d %s=%r, from the row's moduli %r" % (j, name, col[name][j], float(ref[key][j])), s)
            rho = col["density"]
            for name, m_ in (("v_p", col["bm_VRH"] + 4.0 / 3.0 * col["G_VRH"]), ("v_s", col["G_VRH"]), ("v_phi", col["bm_VRH"])):
                want = np.sqrt(np.where(m_ > 0, m_, np.nan) / rho)          # sqrt(GPa / (g/cm^3)) = km/s
                bad = pd & np.isfinite(want) & (np.abs(col[name] - want) > 2e-5 * np.abs(want) + 5.5e-6)
                if np.any(bad):
                    j = int(np.argmax(bad))
                    raise PropertyViolation("C18/velocity/%s" % name, "row %d %s=%r km/s, sqrt(M/rho) of the row %r" % (j, name, col[name][j], float(want[j])), s)
    noncubic = (1, 3) in mod and (2, 3) in mod and bool(np.any(np.abs(mod[(1, 3)] - mod[(2, 3)]) > 1e-6))
    return {"noncubic": noncubic}


def sub_static(ctx):
    def body(s):
        if s["mode"] == "pressure" and ctx.is_excluded("C18/mode=pressure/F"):
            return
        info = oracle(ctx, s)
        if info is None:
            ctx.stats.skip("non-monotonic-fit")
            return
        nt = s["mode"] != "none" and s["with_table"] and info["noncubic"]
        ctx.case(s, nt, classes=["mode-" + s["mode"], "table" if s["with_table"] else "no-table", "n=%d" % s["n"],
                                  "system-" + (s["system"] if s["apply_system"] else "none"), "static-rows-" + s.get("static_rows", "as-is"),
                                  "big-energy" if s.get("big_energy") else "ordinary-energy",
                                  "static-volumes-" + s.get("static_vols", "own")])

    ctx.run_given(body, cases(), max_examples=ctx.n(400, 8000))


def subchecks(ctx):
    return [("run_static", sub_static)]


def replay(ctx, payload):
    oracle(ctx, payload["case"])
