"""C20 - eigenvector tools: sorting recovers the permutation; conversion restores a basis; loader returns the file.

Oracles: planted permutation/phases/perturbation (unique assignment by construction), planted unit eigenvectors
behind arbitrary masses and row scales, own writer following Quantum ESPRESSO's matdyn Fortran formats.
"""
import os
import shutil
import tempfile

import numpy as np
from hypothesis import strategies as st

from .. import PropertyViolation

ID = "C20"
SHARDS = {"quick": 8, "thorough": 16}
RULE = ("dimension 2-60; real orthogonal / complex unitary bases (QR of a seeded Gaussian), drawn permutation, unit phases (+-1 "
        "or complex for a real base, 30 % of them within 0.02 rad of +-i), perturbation of norm <= 0.05 re-normalised (matching overlap >= 0.9, others <= 0.06); items as list of str / tuple of int / ndarray of float; masses 1-250, row scales "
        "1e-3..1e3; matdyn files with 1-6 q-points, 3-60 modes, |component| <= 1 in QE's formats; non-trivial = complex case with "
        "n >= 10, non-identity permutation, nq >= 2; distinct by the drawn case")
ASSUMPTIONS = [
    "matdyn layout: format (5x,'freq (',i5,') =',f15.6,' [THz] =',f15.6,' [cm-1]') and (' (',3(f10.6,1x,f10.6,3x),')') as in the shipped test data",
    "loader values compared exactly with the printed 4/6-decimal numbers",
]


def unitary(rng, n, complex_):
    a = rng.normal(size=(n, n))
    if complex_:
        a = a + 1j * rng.normal(size=(n, n))
    q, r = np.linalg.qr(a)
    return q


@st.composite
def sort_cases(draw):
    n = draw(st.integers(2, 60))
    kind = draw(st.sampled_from(["random", "random", "transposition", "3-cycle", "identity"]))
    if kind == "random":
        perm = list(draw(st.permutations(list(range(n)))))
    else:
        # mode crossings: a near-identity permutation in a (possibly large) basis
        perm = list(range(n))
        if kind == "transposition" and n >= 2:
            i = draw(st.integers(0, n - 2))
            j = draw(st.integers(i + 1, n - 1))
            perm[i], perm[j] = perm[j], perm[i]
        elif kind == "3-cycle" and n >= 3:
            i, j, k = sorted(draw(st.lists(st.integers(0, n - 1), min_size=3, max_size=3, unique=True)))
            perm[i], perm[j], perm[k] = perm[j], perm[k], perm[i]
    return {"n": n, "complex": draw(st.booleans()), "seed": draw(st.integers(0, 2 ** 32 - 1)), "perm_kind": kind,
            "perm": perm, "eps": draw(st.sampled_from([0.0, 0.01, 0.05])),
            "containers": draw(st.sampled_from(["list", "tuple", "ndarray"])),
            # a real base whose second basis carries arbitrary (complex) phases: mixed dtypes
            "phases": draw(st.sampled_from(["sign", "unit-complex"])),
            # the items to be sorted: any sequence (frequencies are usually an ndarray)
            "items": draw(st.sampled_from(["list-of-str", "list-of-str", "tuple-of-int", "ndarray-of-float"]))}


def sort_oracle(ctx, c):
    from cij.misc.evec_sort import evec_sort
    rng = np.random.default_rng(c["seed"])
    n = c["n"]
    base = unitary(rng, n, c["complex"])              # rows are the base vectors
    perm = c["perm"]
    target = base[perm].copy()                        # target[i] matches base[perm[i]]
    cphase = c["complex"] or c.get("phases") == "unit-complex"
    if cphase:
        # near +-i as often as anywhere else: the real part of the overlap alone does not identify the vector
        ph = np.exp(2j * np.pi * rng.random(n))
        k = rng.random(n) < 0.3
        ph[k] = np.exp(1j * (np.pi / 2 * rng.choice([-1.0, 1.0], n) + rng.uniform(-0.02, 0.02, n)))[k]
    else:
        ph = rng.choice([-1.0, 1.0], n)
    target = target * ph[:, None]
    if c["eps"] > 0:
        noise = rng.normal(size=target.shape) + (1j * rng.normal(size=target.shape) if cphase else 0)
        noise = noise / np.linalg.norm(noise, axis=1, keepdims=True) * c["eps"]
        target = target + noise
        target = target / np.linalg.norm(target, axis=1, keepdims=True)
    kind = c.get("items", "list-of-str")
    if kind == "tuple-of-int":
        items = tuple(1000 + i for i in range(n))
    elif kind == "ndarray-of-float":
        items = np.array([100.5 + 3.0 * i for i in range(n)])
    else:
        items = ["item-%d" % i for i in range(n)]
    conv = {"list": lambda m: [list(r) for r in m], "tuple": lambda m: tuple(tuple(r) for r in m),
            "ndarray": lambda m: np.array(m)}[c["containers"]]
    passed = items.copy() if isinstance(items, np.ndarray) else (list(items) if isinstance(items, list) else items)
    out = ctx.observe(evec_sort, passed, conv(target), conv(base), _bucket="C20/sort/crash", _case=c)
    out = list(out)
    items = list(items)
    if sorted(map(str, out)) != sorted(map(str, items)):
        raise PropertyViolation("C20/sort/not-a-permutation", "result is not a permutation of the input: %r" % (out[:6],), c)
    for i, p in enumerate(perm):
        if out[p] != items[i]:
            raise PropertyViolation("C20/sort/wrong-position", "item %d belongs at position %d, found %r there" % (i, p, out[p]), c)
    # dimension mismatch is rejected
    if n >= 3:
        wide = lambda m: np.hstack([m, m[:, :2]])
        for bad_t, bad_b in ((conv(target[:, :-1]), conv(base)), (conv(target[:-1]), conv(base)), (conv(target), conv(base[:-1])),
                             # both sets equally shaped but not n x n
                             (conv(target[:, :-1]), conv(base[:, :-1])), (conv(wide(target)), conv(wide(base))),
                             (conv(target[:, :1]), conv(base[:, :1]))):
            try:
                evec_sort(list(items), bad_t, bad_b)        # (plain list here: the shapes of the vector sets are what is wrong)
            except Exception:
                continue
            raise PropertyViolation("C20/sort/mismatch-accepted", "dimension mismatch accepted", c)


def sub_sort(ctx):
    def body(c):
        sort_oracle(ctx, c)
        ident = c["perm"] == list(range(c["n"]))
        ctx.case(dict(c, perm=c["perm"][:8]), (not ident) and (not c["complex"] or c["n"] >= 10),
                 classes=["sort", "complex" if c["complex"] else "real", "eps=%g" % c["eps"], "perm-" + c.get("perm_kind", "random"),
                          "container-" + c["containers"], "items-" + c.get("items", "list-of-str")] + (["real-base/complex-phases"] if (not c["complex"] and c.get("phases") == "unit-complex") else []), key=c)

    ctx.run_given(body, sort_cases(), max_examples=ctx.n(600, 20000))


# ---------------------------------------------------------------------------------------------------------
@st.composite
def conv_cases(draw):
    na = draw(st.integers(1, 20))
    return {"na": na, "complex": draw(st.booleans()), "seed": draw(st.integers(0, 2 ** 32 - 1)),
            "rows": draw(st.sampled_from(["all", "some", "one"])),
            # any positive masses (amu, kg, ...) and displacement vectors of arbitrary norm
            "mass_unit": draw(st.sampled_from([1.0, 1.0, 1.66e-27, 1e-3, 1e6])), "amp": draw(st.sampled_from([1.0, 1e-10, 1e-6, 1e8]))}


def conv_oracle(ctx, c):
    from cij.misc.evec_disp2eig import evec_disp2eig
    rng = np.random.default_rng(c["seed"])
    na = c["na"]
    n = 3 * na
    E = unitary(rng, n, c["complex"])                  # rows: unit-norm mass-weighted eigenvectors
    if c["rows"] == "some":
        E = E[: max(1, n // 2)]
    elif c["rows"] == "one":
        E = E[:1]
    masses = rng.uniform(1.0, 250.0, na) * c.get("mass_unit", 1.0)
    scales = 10.0 ** rng.uniform(-3, 3, E.shape[0]) * c.get("amp", 1.0)
    m3 = np.repeat(masses, 3)
    disp = E / np.sqrt(m3)[None, :] * scales[:, None]   # displacement vectors of arbitrary norm
    disp0 = disp.copy()
    got = ctx.observe(evec_disp2eig, disp, list(masses), _bucket="C20/conversion/crash", _case=c)
    got = np.asarray(got)
    if not np.array_equal(disp, disp0):
        raise PropertyViolation("C20/conversion/input-mutated", "the displacement array is modified in place", c)
    if got.shape != E.shape or np.max(np.abs(got - E)) > 1e-12 * 10:
        raise PropertyViolation("C20/conversion/value", "conversion does not return the planted unit eigenvectors (max dev %.3g)" % (
            float(np.max(np.abs(got - E))) if got.shape == E.shape else float("nan")), c)
    G = got @ np.conj(got).T
    if np.max(np.abs(G - np.eye(E.shape[0]))) > 1e-11:
        raise PropertyViolation("C20/conversion/not-orthonormal", "A A^dagger != I", c)
    for bad in (disp[:, :-1], disp[:, :-3] if n > 3 else disp[:, :1]):
        try:
            evec_disp2eig(bad, list(masses))
        except Exception:
            continue
        raise PropertyViolation("C20/conversion/mismatch-accepted", "shape mismatch accepted", c)
    try:
        evec_disp2eig(disp, list(masses) + [1.0])
    except Exception:
        pass
    else:
        raise PropertyViolation("C20/conversion/mismatch-accepted", "mass vector of wrong length accepted", c)


def sub_conversion(ctx):
    def body(c):
        conv_oracle(ctx, c)
        ctx.case(c, c["complex"] and 3 * c["na"] >= 10, classes=["conversion", "complex" if c["complex"] else "real", "rows-" + c["rows"],
                                                                   "mass-unit=%g" % c.get("mass_unit", 1.0), "amplitude=%g" % c.get("amp", 1.0)])

    ctx.run_given(body, conv_cases(), max_examples=ctx.n(300, 20000))


# ---------------------------------------------------------------------------------------------------------
@st.composite
def load_cases(draw):
    return {"nq": draw(st.integers(1, 6)), "na": draw(st.integers(1, 20)), "seed": draw(st.integers(0, 2 ** 32 - 1)),
            "negative_freq": draw(st.booleans())}


def write_matdyn(path, qs, freqs_thz, vecs):
    """own writer following QE's matdyn.x formats"""
    nq, npm = freqs_thz.shape
    lines = []
    star = " " + "*" * 74
    for iq in range(nq):
        lines.append("     diagonalizing the dynamical matrix ...")
        lines.append("")
        lines.append(" q = %12.4f%12.4f%12.4f" % tuple(qs[iq]))
        lines.append(star)
        for m in range(npm):
            thz = freqs_thz[iq, m]
            lines.append("     freq (%5d) =%15.6f [THz] =%15.6f [cm-1]" % (m + 1, thz, thz * 33.35641))
            v = vecs[iq, m].reshape(-1, 3)
            for atom in v:
                lines.append(" (" + "".join("%10.6f %10.6f   " % (z.real, z.imag) for z in atom) + ")")
        lines.append(star)
    with open(path, "w") as fp:
        fp.write("\n".join(lines) + "\n")


def load_oracle(ctx, c):
    from cij.misc.evec_load import evec_load
    rng = np.random.default_rng(c["seed"])
    nq, npm = c["nq"], 3 * c["na"]
    qs = np.round(rng.uniform(-1, 1, (nq, 3)), 4)
    thz = np.round(rng.uniform(-2.0 if c["negative_freq"] else 0.0, 40.0, (nq, npm)), 6)
    vecs = np.round(rng.uniform(-1, 1, (nq, npm, npm)), 6) + 1j * np.round(rng.uniform(-1, 1, (nq, npm, npm)), 6)
    from ..datasets import reused_dir
    d = reused_dir("c20")            # same path as the previous case, file rewritten (matdyn.x overwrites its output)
    path = os.path.join(d, "matdyn.eig")
    write_matdyn(path, qs, thz, vecs)
    out = ctx.observe(evec_load, path, nq, npm, _bucket="C20/loader/crash", _case=c)
    check_loaded(out, qs, thz, vecs, nq, npm, c)
    # matdyn.x overwrites its output: the same path with the same nq and number of modes but new contents
    qs = np.round(rng.uniform(-1, 1, (nq, 3)), 4)
    thz = np.round(rng.uniform(0.0, 40.0, (nq, npm)), 6)
    vecs = np.round(rng.uniform(-1, 1, (nq, npm, npm)), 6) + 1j * np.round(rng.uniform(-1, 1, (nq, npm, npm)), 6)
    write_matdyn(path, qs, thz, vecs)
    out = ctx.observe(evec_load, path, nq, npm, _bucket="C20/loader/crash", _case=c)
    check_loaded(out, qs, thz, vecs, nq, npm, c, again=True)


def check_loaded(out, qs, thz, vecs, nq, npm, c, again=False):
    if again:
        try:
            check_loaded(out, qs, thz, vecs, nq, npm, c)
        except PropertyViolation as v:
            raise PropertyViolation("C20/loader/stale-after-rewrite", "after the file was rewritten: " + v.message, c)
        return
    if len(out) != nq:
        raise PropertyViolation("C20/loader/count", "%d q-points returned" % len(out), c)
    for iq, (q, modes) in enumerate(out):
        if tuple(q) != tuple(float("%.4f" % x) for x in qs[iq]):
            raise PropertyViolation("C20/loader/q", "q-point %d: %r vs %r" % (iq, q, qs[iq].tolist()), c)
        if len(modes) != npm:
            raise PropertyViolation("C20/loader/count", "%d modes at q-point %d" % (len(modes), iq), c)
        for m, ((idx, t, cm), vec) in enumerate(modes):
            want_cm = float("%.6f" % (thz[iq, m] * 33.35641))
            if idx != m + 1 or t != float("%.6f" % thz[iq, m]) or cm != want_cm:
                raise PropertyViolation("C20/loader/frequency", "mode %d at q %d: %r vs index %d, %r THz, %r cm-1" % (
                    m, iq, (idx, t, cm), m + 1, thz[iq, m], want_cm), c)
            want = np.array([complex(float("%.6f" % z.real), float("%.6f" % z.imag)) for z in vecs[iq, m]])
            if len(vec) != npm or not np.array_equal(np.array(vec), want):
                raise PropertyViolation("C20/loader/components", "vector of mode %d at q %d differs from the printed components" % (m, iq), c)


def loader_target(ctx):
    def body(c):
        load_oracle(ctx, c)
        ctx.case(c, c["nq"] >= 2, classes=["loader", "nq=%d" % c["nq"]])

    return body, (load_cases(),)


def sub_loader(ctx):
    body, sts = loader_target(ctx)
    ctx.run_given(body, *sts, max_examples=ctx.n(64, 4000))


def fuzz_targets(ctx):
    return {"loader": loader_target(ctx)}


def sub_fuzz(ctx):
    if ctx.quick or not ctx.primary:
        return
    import sys
    ctx.run_fuzz(sys.modules[__name__], "loader", runs=50000, max_time=60)


def subchecks(ctx):
    return [("sort", sub_sort), ("conversion", sub_conversion), ("loader", sub_loader), ("fuzz", sub_fuzz)]


def replay(ctx, payload):
    c = payload["case"]
    sub = payload.get("subcheck")
    {"sort": sort_oracle, "conversion": conv_oracle, "loader": load_oracle, "fuzz": load_oracle}[sub](ctx, c)
