"""C15 - output files carry the in-memory results on the requested grids, units and names.

Oracle: the documented keyword table (hard-coded below from docs/usage/output.rst / the rule descriptions) maps
keyword -> (file-name pattern, unit, quantity); files are re-read with an own parser and compared with the
in-memory arrays times own unit factors; aliases must be byte-identical; exactly the expected files exist.
"""
import os
import shutil
import tempfile
import warnings

import numpy as np
from hypothesis import strategies as st

from .. import PropertyViolation, refphys
from ..datasets import Dataset, Workdir, dataset_specs, materialise, place_pressures
from ..tables import parse_qha_table

ID = "C15"
SHARDS = {"quick": 16, "thorough": 16}
RULE = ("data sets as C05 (a quarter of them with one coupling constant of 1e-5..1e-4 GPa; DT_SAMPLE / DELTA_P_SAMPLE = 1, 2 or 3 grid steps) and an output section: a drawn subset of the documented keywords in drawn alias spellings, string or "
        "dict form (fname / unit overrides on scalar keywords), both bases (v only pressure base, p only volume base); "
        "non-trivial = section with >= 1 alias pair compared, >= 1 ij-keyword and NT >= 2; distinct by the drawn spec")
ASSUMPTIONS = [
    "documented table keyword -> (pattern, unit, quantity) hard-coded in this module",
    "re-read values compared at 1e-7 relative (16 printed digits are exact; slack covers CODATA revisions between pint and the harness)",
]

# keyword table: aliases, file pattern, unit factor from internal (a.u. / km/s), quantity name on the base object
GPA = refphys.AU_TO_GPA
DOC = [
    (["cij_s", "cij", "adiabatic_elastic_moduli"], "c{ij}s_{base}_gpa.txt", GPA, "modulus_adiabatic", "ij"),
    (["cij_t", "isothermal_elastic_moduli"], "c{ij}t_{base}_gpa.txt", GPA, "modulus_isothermal", "ij"),
    (["B_V", "Bm_V", "bm_V", "bulk_modulus_voigt"], "bm_V_{base}_gpa.txt", GPA, "bulk_modulus_voigt", "value"),
    (["B_R", "Bm_R", "bm_R", "bulk_modulus_reuss"], "bm_R_{base}_gpa.txt", GPA, "bulk_modulus_reuss", "value"),
    (["B_VRH", "Bm_VRH", "bm_VRH", "bulk_modulus_voigt_reuss_hill"], "bm_VRH_{base}_gpa.txt", GPA, "bulk_modulus_voigt_reuss_hill", "value"),
    (["G_V", "shear_modulus_voigt"], "G_V_{base}_gpa.txt", GPA, "shear_modulus_voigt", "value"),
    (["G_R", "shear_modulus_reuss"], "G_R_{base}_gpa.txt", GPA, "shear_modulus_reuss", "value"),
    (["G_VRH", "shear_modulus_voigt_reuss_hill"], "G_VRH_{base}_gpa.txt", GPA, "shear_modulus_voigt_reuss_hill", "value"),
    (["v_p", "vp", "primary_velocities"], "v_p_{base}_km_s.txt", 1.0, "primary_velocities", "value"),
    (["v_s", "vs", "secondary_velocities"], "v_s_{base}_km_s.txt", 1.0, "secondary_velocities", "value"),
    (["v", "V", "volumes"], "v_{base}_ang3.txt", refphys.BOHR3_TO_ANG3, "volumes", "value-ponly"),
    (["p", "P", "pressures"], "p_{base}_gpa.txt", GPA, "pressures", "value-vonly"),
]
UNIT_OVERRIDES = {"GPa": {"Pa": 1e9, "kbar": 10.0, "MPa": 1e3}, "km/s": {"m/s": 1e3}, "ang3": {"nm^3": 1e-3}}


@st.composite
def cases(draw):
    s = draw(dataset_specs(max_nq=2, max_na=2, max_nt=4, interpolators=["lsq_poly"], keys_mode="ortho9+"))
    s["order"] = min(s["order"], 3)
    if draw(st.integers(0, 3)) == 0:
        # a coupling constant of 1e-5..1e-4 GPa in the table (its phonon part vanishes): tiny but non-zero file entries
        s["tiny_coupling"] = True
        s["system"] = draw(st.sampled_from(["monoclinic", "triclinic"]))
        s["apply_system"] = False
    s["sample_mult"] = draw(st.sampled_from([1, 1, 2, 3]))
    items = []
    n = draw(st.integers(1, 6))
    for _ in range(n):
        rule = draw(st.integers(0, len(DOC) - 1))
        alias = draw(st.integers(0, 3))
        base = draw(st.sampled_from(["tp", "tv"]))
        form = draw(st.sampled_from(["str", "str", "dict", "fname", "unit"]))
        items.append({"rule": rule, "alias": alias, "base": base, "form": form})
    if s.get("tiny_coupling"):
        items.append({"rule": draw(st.sampled_from([0, 1])), "alias": 0,
                      "base": draw(st.sampled_from(["tp", "tv"])), "form": "str"})
    s["items"] = items
    return s


def section_of(items):
    """Build the output section and the list of expectations."""
    sec = {"pressure_base": [], "volume_base": []}
    expect = []
    used_names = set()
    for n, it in enumerate(items):
        aliases, pattern, factor, prop, kind = DOC[it["rule"]]
        base = it["base"]
        if kind == "value-ponly":
            base = "tp"
        if kind == "value-vonly":
            base = "tv"
        kw = aliases[it["alias"] % len(aliases)]
        form = it["form"]
        entry = kw
        fname = None
        fac = factor
        if form == "dict":
            entry = {"keyword": kw}
        elif form == "fname" and kind != "ij":
            fname = "custom_%d.txt" % n
            entry = {"keyword": kw, "fname": fname}
        elif form == "unit":
            fam = "GPa" if factor == GPA else ("km/s" if factor == 1.0 else "ang3")
            unit, mult = sorted(UNIT_OVERRIDES[fam].items())[n % len(UNIT_OVERRIDES[fam])]
            entry = {"keyword": kw, "unit": unit}
            fac = factor * mult
        key = (base, it["rule"]) if fname is None else (base, fname)
        if key in used_names:
            continue                # the same file would be written twice: keep the first request only
        used_names.add(key)
        sec["pressure_base" if base == "tp" else "volume_base"].append(entry)
        expect.append({"base": base, "rule": it["rule"], "keyword": kw, "fname": fname, "factor": fac, "entry": entry})
    return {k: v for k, v in sec.items() if v}, expect


def write_in(calc, section, case, ctx):
    d = tempfile.mkdtemp(prefix="cijc15-")
    old = os.getcwd()
    os.chdir(d)
    try:
        calc.config["output"] = section
        with warnings.catch_warnings():
            warnings.simplefilter("ignore")
            ctx.observe(calc.write_output, _bucket="C15/write-crash", _case=case)
        files = {}
        for f in sorted(os.listdir(d)):
            files[f] = open(os.path.join(d, f), "rb").read()
        return files
    finally:
        os.chdir(old)
        shutil.rmtree(d, ignore_errors=True)


def oracle(ctx, s, ds, qs, case):
    import cij.core.calculator as cc
    section, expect = section_of(s["items"])
    with Workdir() as wd, warnings.catch_warnings(), np.errstate(all="ignore"):
        warnings.simplefilter("ignore")
        path, cfg = materialise(ds, wd, qs)
        calc = ctx.observe(cc.Calculator, path, _bucket="C15/crash", _case=case)
        T = np.array(calc.t_array, dtype=float)
        V = np.array(calc.v_array, dtype=float)
        keys = [tuple(k.voigt) for k in calc.modulus_keys]

        def snapshot():
            mem = {}
            for e in expect:
                aliases, pattern, factor, prop, kind = DOC[e["rule"]]
                base = calc.pressure_base if e["base"] == "tp" else calc.volume_base
                if kind == "ij":
                    if e["base"] == "tp":
                        # the (T,V) tensor named by the keyword, converted with the public v2p: independent of how the
                        # pressure-base dictionary views look their entries up (a view returning the other tensor is C06's
                        # business in memory, but a *file* holding the other tensor is this property's)
                        tv = getattr(calc, prop)
                        mem[(e["base"], e["rule"])] = {tuple(k.voigt): np.array(calc.pressure_base.v2p(np.array(tv[k], dtype=float)), dtype=float)
                                                      for k in calc.modulus_keys}
                    else:
                        src = getattr(base, prop)
                        mem[(e["base"], e["rule"])] = {tuple(k.voigt): np.array(src[k], dtype=float) for k in calc.modulus_keys}
                else:
                    mem[(e["base"], e["rule"])] = np.array(getattr(base, prop), dtype=float)
            return mem

        # the in-memory results are observed BEFORE anything is written; writing must not change them
        mem = ctx.observe(snapshot, _bucket="C15/read-crash", _case=case)
        files = write_in(calc, section, case, ctx)
        mem_after = ctx.observe(snapshot, _bucket="C15/read-after-write-crash", _case=case)
        for k_, v_ in mem.items():
            w_ = mem_after[k_]
            same = all(np.array_equal(v_[x], w_[x], equal_nan=True) for x in v_) if isinstance(v_, dict) else np.array_equal(v_, w_, equal_nan=True)
            if not same:
                raise PropertyViolation("C15/write-changes-memory", "in-memory %s (%s base) differs after write_output()" % (DOC[k_[1]][3], k_[0]), case)
        # alias pair: the first expectation re-written under another alias must give identical bytes
        alias_checked = 0
        for e in expect[:2]:
            aliases = DOC[e["rule"]][0]
            if len(aliases) < 2 or e["fname"] or isinstance(e["entry"], dict) and "unit" in e["entry"]:
                continue
            other = [a for a in aliases if a != e["keyword"]][0]
            sec2 = {("pressure_base" if e["base"] == "tp" else "volume_base"): [other]}
            sec1 = {("pressure_base" if e["base"] == "tp" else "volume_base"): [e["keyword"]]}
            f1 = write_in(calc, sec1, case, ctx)
            f2 = write_in(calc, sec2, case, ctx)
            if f1 != f2:
                raise PropertyViolation("C15/alias", "aliases %s and %s produce different files" % (e["keyword"], other), case)
            alias_checked += 1
    nt_expected = s["nt"]
    want_T = s["tmin"] + s["dt"] * np.arange(nt_expected)
    want_P = qs["P_MIN"] + qs["DELTA_P"] * np.arange(qs["NTV"])
    want_V = V * refphys.BOHR3_TO_ANG3
    expected_files = set()
    for e in expect:
        aliases, pattern, factor, prop, kind = DOC[e["rule"]]
        arrays = mem[(e["base"], e["rule"])]
        todo = []
        if kind == "ij":
            for k in keys:
                todo.append((pattern.format(ij="%d%d" % k, base=e["base"]), arrays[k]))
        else:
            todo.append((e["fname"] or pattern.format(base=e["base"]), arrays))
        for fname, arr in todo:
            expected_files.add(fname)
            if fname not in files:
                raise PropertyViolation("C15/file-missing", "file %s for keyword %s not written (have %r)" % (
                    fname, e["keyword"], sorted(files)[:6]), case)
            try:
                name, rows, cols, vals, raw = parse_qha_table(files[fname].decode(), is_text=True)
            except Exception as ex:  # noqa
                raise PropertyViolation("C15/unparsable", "%s cannot be parsed: %s" % (fname, ex), case)
            if rows.shape != want_T.shape or np.max(np.abs(rows - want_T)) > 1e-6 * max(1.0, np.max(np.abs(want_T))):
                raise PropertyViolation("C15/row-labels", "%s: row labels %r..., expected T_MIN+k*DT for k<NT: %r..." % (
                    fname, rows[:3].tolist(), want_T[:3].tolist()), case)
            wantc = want_P if e["base"] == "tp" else want_V
            tolc = 1e-6 if e["base"] == "tp" else 1e-5 * np.max(want_V)
            if cols.shape != wantc.shape or np.max(np.abs(cols - wantc)) > tolc:
                raise PropertyViolation("C15/column-labels/%s" % e["base"], "%s: column labels %r..., expected %r..." % (
                    fname, cols[:3].tolist(), wantc[:3].tolist()), case)
            want = arr[:nt_expected] * e["factor"]
            fin = np.isfinite(want)
            if vals.shape != want.shape:
                raise PropertyViolation("C15/shape", "%s has shape %r, expected %r" % (fname, vals.shape, want.shape), case)
            bad = fin & ~(np.abs(vals - want) <= 1e-7 * np.abs(want) + 1e-300)
            if np.any(bad):
                idx = tuple(int(x) for x in np.argwhere(bad)[0])
                raise PropertyViolation("C15/value/%s" % DOC[e["rule"]][3], "%s at %r: file %r, in-memory result in the documented unit %r" % (
                    fname, idx, float(vals[idx]), float(want[idx])), case)
            # printed precision: %.15e
            if not all(len(t.split("e")[0].lstrip("-").replace(".", "")) == 16 for t in raw[0][:2] if "e" in t):
                raise PropertyViolation("C15/precision", "%s is not written with 16 significant digits" % fname, case)
    extra = set(files) - expected_files
    if extra:
        raise PropertyViolation("C15/unexpected-files", "files %r written but not requested" % sorted(extra), case)
    return {"alias_checked": alias_checked, "ij": any(DOC[e["rule"]][4] == "ij" for e in expect), "n": len(expect)}


def build(s):
    ds = Dataset(s)
    r = place_pressures(ds)
    if not r:
        return ds, None
    qs = dict(r[0])
    m = s.get("sample_mult", 1)
    if m != 1:
        # DT_SAMPLE / DELTA_P_SAMPLE are plot-sampling settings (e.g. DT 50 with the packaged DT_SAMPLE 100): the tables carry every row
        qs["DT_SAMPLE"] = qs["DT"] * m
        qs["DELTA_P_SAMPLE"] = qs["DELTA_P"] * m
    return ds, qs


def sub_outputs(ctx):
    def body(s):
        ds, qs = build(s)
        if qs is None:
            ctx.stats.skip("unusable-dataset")
            return
        info = oracle(ctx, s, ds, qs, s)
        cl = ["entries=%d" % info["n"]] + ["form-" + it["form"] for it in s["items"]] + ["base-" + it["base"] for it in s["items"]]
        cl.append("tiny-coupling" if getattr(ds, "tiny_key", None) else "no-tiny-coupling")
        cl.append("DT_SAMPLE=%dxDT" % s.get("sample_mult", 1))
        ctx.case(s, info["alias_checked"] >= 1 and info["ij"] and s["nt"] >= 2, classes=sorted(set(cl)))

    ctx.run_given(body, cases(), max_examples=ctx.n(96, 3000), shrink=not ctx.quick)


def sub_all_keywords(ctx):
    """Complete enumeration of the documented keyword/alias table on both bases for one drawn data set per shard."""
    def body(s):
        ds, qs = build(s)
        if qs is None:
            ctx.stats.skip("unusable-dataset")
            return
        for alias in range(4):
            items = [{"rule": r, "alias": alias, "base": b, "form": "str"} for r in range(len(DOC)) for b in ("tp", "tv")]
            s2 = dict(s, items=items)
            oracle(ctx, s2, ds, qs, s2)
            ctx.case({"all_keywords_alias_index": alias, "seed": s["seed"], "system": s["system"]}, True, classes=["all-keywords"])

    ctx.run_given(body, cases(), max_examples=ctx.n(16, 64), shrink=False)


def subchecks(ctx):
    return [("outputs", sub_outputs), ("all_keywords", sub_all_keywords)]


def replay(ctx, payload):
    s = payload["case"]
    ds, qs = build(s)
    if qs is not None:
        oracle(ctx, s, ds, qs, s)
