"""C01 - thermal c11..c33, c12, c13, c23 are strain derivatives of the QHA free energy.

Differential oracle: numerically differentiated free energy (vcij.refphys, longdouble finite
differences with per-mode adaptive steps, own CODATA constants) against the closed forms in
cij.core.phonon_contribution.nonshear, observed on a duck-typed calculator.
"""
import numpy as np
from hypothesis import strategies as st

from .. import PropertyViolation
from ..duck import DuckCalculator, build_duck_spec, duck_specs
from ..refphys import free_energy_derivs, mp_reference_point
from ..stats import jsonable

ID = "C01"
SHARDS = {"quick": 8, "thorough": 16}
RULE = ("Hypothesis draws structure (nq 1-8, atoms 1-10, 1-6 volumes, 1-6 temperatures from the classes "
        "{0},[0.5,5),[5,2000),[2000,5000] K, weights in [1e-3,1e3], strain fractions in (0.05,0.9) per volume, "
        "Gamma-acoustic slots zero or garbage) and a 32-bit seed that numpy expands into nu in [30,1500] cm^-1, "
        "gamma in [-3,4], V dgamma/dV in [-5,5], arbitrary pressure fields; every quantity is read a second time after the others; every second case is followed in the same process by a second calculation sharing part of its input (same first-volume frequencies / same frequencies with other gamma / other weights / other temperatures) that is checked against its own reference; non-trivial = at least one T>0, "
        ">=2 non-acoustic modes (distinct gamma), and non-uniform weights when nq>1; distinct by (structure, seed, strains)")
ASSUMPTIONS = [
    "reference free energy differentiated numerically in 80-bit floats (7-point stencils, per-mode adaptive step); "
    "cross-checked against mpmath (40 digits) on a sample in the thorough tier",
    "constants typed in from CODATA 2018; tolerance 1e-7 of the sum of absolute per-mode terms covers CODATA revisions (<3e-9)",
    "duck-typed calculator provides the attribute surface listed in vcij/duck.py",
]

REL = 1e-7
FLOOR = 1e-13     # absolute floor for thermal terms, relative to the zero-point scale at the same volume


@st.composite
def cases(draw):
    s = draw(duck_specs(long_grids=True))
    ntv = s["ntv"]
    kind = draw(st.sampled_from(["longitudinal", "offdiagonal"]))
    ei = draw(st.lists(st.floats(0.05, 0.9), min_size=ntv, max_size=ntv))
    if kind == "longitudinal":
        ej = list(ei)
    else:
        ej = draw(st.lists(st.floats(0.05, 0.9), min_size=ntv, max_size=ntv))
    s = dict(s, kind=kind, ei=ei, ej=ej)
    return s


def _close(ctx, got, want, scale, bucket, what, case, rel=REL, floor=0.0):
    got = np.asarray(got)
    if np.iscomplexobj(got):
        raise PropertyViolation("C01/complex", "%s is complex" % what, case)
    tol = rel * scale + floor + 1e-300
    bad = ~(np.abs(got - want) <= tol)
    if np.any(bad):
        idx = tuple(int(i) for i in np.argwhere(bad)[0])
        raise PropertyViolation(bucket, "%s at %r: code %r, reference %r, tol %.3g" % (
            what, idx, float(got[idx]) if np.isfinite(got[idx]) else str(got[idx]), float(want[idx]), float(np.broadcast_to(tol, got.shape)[idx])), case)


def lowT_bucket(full):
    """D3 class: some T>0 with h c nu / k T > 690 (Q^2 e^Q overflows) for a non-acoustic mode."""
    T = np.asarray(full["T"], dtype=float)
    nu = np.array(full["nu"], dtype=float).copy()
    nu[:, 0, :3] = 0
    pos = T[T > 0]
    if pos.size == 0:
        return False
    return 1.4387768775 * nu.max() / pos.min() > 690.0


def oracle(ctx, full):
    """full: expanded spec incl. arrays; raises PropertyViolation."""
    import warnings
    from cij.core.phonon_contribution.nonshear import (
        LongitudinalElasticModulusPhononContribution as Lon,
        OffDiagonalElasticModulusPhononContribution as Off)
    case = full.get("_case")
    ei = np.array(full["ei"], dtype=float)
    ej = np.array(full["ej"], dtype=float)
    T = np.array(full["T"], dtype=float)
    V = np.array(full["V"], dtype=float)
    ref = free_energy_derivs(full["nu"], full["gam"], full["g"], full["weights"], T, V, want_mixed=False)
    duck = DuckCalculator(full)
    bsuf = "/lowT-overflow" if lowT_bucket(full) else ""
    with warnings.catch_warnings(), np.errstate(all="ignore"):
        warnings.simplefilter("ignore")
        if full["kind"] == "longitudinal":
            obj = ctx.observe(Lon, duck, (ei, ei), _bucket="C01/ctor", _case=case)
            zp = ctx.observe(lambda: np.array(obj.zero_point_contribution), _bucket="C01/zp-crash", _case=case)
            th = ctx.observe(lambda: np.array(obj.thermal_contribution), _bucket="C01/th-crash", _case=case)
            val = ctx.observe(lambda: np.array(obj.value_isothermal), _bucket="C01/value-crash", _case=case)
            want_zp = ref["A_zp"] / (5 * ei ** 2) + ref["P_zp"] / (3 * ei)
            sc_zp = ref["A_zp_abs"] / (5 * ei ** 2) + ref["P_zp_abs"] / (3 * ei)
            want_th = ref["A_th"] / (5 * ei ** 2)[None] + ref["P_th"] / (3 * ei)[None]
            sc_th = ref["A_th_abs"] / (5 * ei ** 2)[None] + ref["P_th_abs"] / (3 * ei)[None]
            _close(ctx, zp, want_zp, sc_zp, "C01/longitudinal/zero-point", "c_ii zero-point", case)
            _close(ctx, th, want_th, sc_th, "C01/longitudinal/thermal" + bsuf, "c_ii thermal", case, floor=FLOOR * sc_zp[None])
            _close(ctx, val, want_zp[None] + want_th, sc_zp[None] + sc_th,
                   "C01/longitudinal/sum" + bsuf, "c_ii isothermal", case)
        else:
            obj = ctx.observe(Off, duck, (ei, ej), _bucket="C01/ctor", _case=case)
            zp = ctx.observe(lambda: np.array(obj.zero_point_contribution), _bucket="C01/zp-crash", _case=case)
            th = ctx.observe(lambda: np.array(obj.thermal_contribution), _bucket="C01/th-crash", _case=case)
            val = ctx.observe(lambda: np.array(obj.value_isothermal), _bucket="C01/value-crash", _case=case)
            want_zp = ref["A_zp"] / (15 * ei * ej)
            sc_zp = ref["A_zp_abs"] / (15 * ei * ej)
            want_th = ref["A_th"] / (15 * ei * ej)[None]
            sc_th = ref["A_th_abs"] / (15 * ei * ej)[None]
            _close(ctx, zp, want_zp, sc_zp, "C01/offdiagonal/zero-point", "c_ij zero-point", case)
            _close(ctx, th, want_th, sc_th, "C01/offdiagonal/thermal" + bsuf, "c_ij thermal", case, floor=FLOOR * sc_zp[None])
            # pressure term: exactly supplied total pressure minus supplied static pressure
            p = np.array(full["pressures"], dtype=float)
            ps = np.array(full["static_p"], dtype=float)
            want = zp[None] + th + (p - ps[None])
            mag = np.maximum.reduce([np.abs(zp[None] + th), np.abs(p), np.abs(np.broadcast_to(ps[None], p.shape)), np.abs(want)])
            ok = np.abs(val - want) <= 4 * np.finfo(float).eps * mag
            if val.shape != p.shape or not np.all(ok):
                raise PropertyViolation("C01/offdiagonal/pressure-term",
                                        "value_isothermal - zp - th differs from P_total - P_static", case)
        # the parts read again after the total (and the total read again) are the arrays read before: properties of one
        # object do not change each other
        for nm, first, again in (("zero_point_contribution", zp, np.array(obj.zero_point_contribution)),
                                 ("thermal_contribution", th, np.array(obj.thermal_contribution)),
                                 ("value_isothermal", val, np.array(obj.value_isothermal))):
            if first.shape != again.shape or not np.array_equal(first, again, equal_nan=True):
                raise PropertyViolation("C01/%s/changed-by-reading" % full["kind"], "%s read again after the other quantities differs from its first reading (max change %.3g)" % (
                    nm, float(np.nanmax(np.abs(first - again))) if first.shape == again.shape else float("nan")), case)
        # thermal part exactly zero at T = 0
        z = T == 0
        if np.any(z) and not np.all(th[z, :] == 0.0):
            raise PropertyViolation("C01/thermal-nonzero-at-T0", "thermal contribution at T=0 is not exactly 0", case)
    return ref


def nontrivial(full):
    T = np.asarray(full["T"])
    nmodes = full["nq"] * 3 * full["na"] - 3
    w = np.asarray(full["weights"])
    return bool(np.any(T > 0) and nmodes >= 2 and (full["nq"] == 1 or np.ptp(w) > 0))


def classes_of(full):
    T = np.asarray(full["T"])
    c = [full["kind"]]
    if np.any(T == 0):
        c.append("T=0 present")
    if np.any((T > 0) & (T < 5)):
        c.append("0<T<5K")
    if np.any(T > 2000):
        c.append("T>2000K")
    if full["garbage"]:
        c.append("garbage-acoustic")
    if full["nq"] > 1:
        c.append("nq>1")
    if lowT_bucket(full):
        c.append("lowT-overflow-class")
    if len(T) > 64:
        c.append("long-T-grid(>64)")
    return c


TWINS = ("same-first-volume", "same-frequencies", "other-weights", "other-temperatures")


def twin_of(full, kind):
    """A second spectrum sharing part of `full` (arrays (ntv, nq, 3na)); None when the kind needs more volumes / q-points."""
    f = {k: (np.array(v, copy=True) if isinstance(v, np.ndarray) else v) for k, v in full.items() if k != "_case"}
    nu = np.array(f["nu"], dtype=float)
    if kind == "same-first-volume":
        if nu.shape[0] < 2:
            return None
        nu[1:] = nu[1:] * 1.37 + 11.0
        nu[1:, 0, :3] = np.array(full["nu"], dtype=float)[1:, 0, :3]       # the Gamma-acoustic slots stay what they were
        f["nu"] = nu
        f["gam"] = np.array(f["gam"], dtype=float) * -0.5 + 0.9
        f["g"] = np.array(f["g"], dtype=float)[::-1].copy() if nu.shape[0] > 1 else f["g"]
    elif kind == "same-frequencies":
        f["gam"] = 1.3 - np.array(f["gam"], dtype=float)
        f["g"] = np.array(f["g"], dtype=float) * 0.5 - 1.0
    elif kind == "other-weights":
        w = [float(x) for x in f["weights"]]
        if len(w) < 2:
            return None
        f["weights"] = [x * (1.0 + 0.5 * ((i * 7) % 3)) for i, x in enumerate(w)]
    elif kind == "other-temperatures":
        T = [float(x) for x in f["T"]]
        f["T"] = [x * 1.25 + (3.0 if x > 0 else 0.0) for x in T]
    return f


def compact(s):
    out = {k: s[k] for k in ("nq", "na", "ntv", "T", "seed", "garbage", "weights", "V", "kind", "ei", "ej")}
    if len(out["T"]) > 8:
        out["T"] = {"n": len(s["T"]), "first": s["T"][0], "step": s["T"][1] - s["T"][0]}
    return out


def sub_identity(ctx):
    def body(s):
        full = build_duck_spec(s)
        if lowT_bucket(full) and ctx.is_excluded("C01/lowT-overflow"):
            return
        full["_case"] = jsonable({k: v for k, v in full.items() if k != "_case"})
        try:
            oracle(ctx, full)
        except PropertyViolation as v:
            if v.bucket.endswith("/lowT-overflow"):
                raise PropertyViolation("C01/lowT-overflow", v.message, v.case)
            raise
        cls = classes_of(full)
        # a second calculation in the same process that shares part of the first one's input (same temperatures and array
        # shapes; same frequencies at the first volume / at every volume / same everything but weights or temperatures):
        # its contributions are still the derivatives of ITS free energy (nothing is remembered from the previous spectrum)
        if s["seed"] % 2 == 0:
            kind = TWINS[(s["seed"] // 2) % len(TWINS)]
            full2 = twin_of(full, kind)
            if full2 is not None:
                prior = full["_case"]
                full2["_case"] = dict(jsonable({k: v for k, v in full2.items() if k != "_case"}), _prior=prior)
                try:
                    oracle(ctx, full2)
                except PropertyViolation as v:
                    if v.bucket.endswith("/lowT-overflow"):
                        raise PropertyViolation("C01/lowT-overflow", v.message, v.case)
                    raise PropertyViolation(v.bucket + "/second-calculation:" + kind, v.message, v.case)
                cls = cls + ["second-calculation:" + kind]
        ctx.case(compact(s), nontrivial(full), classes=cls)

    ctx.run_given(body, cases(), max_examples=ctx.n(3000, 200000))


def sub_mpmath(ctx):
    """Cross-check of the reference itself (and of the code) with 40-digit mpmath on small cases."""
    if ctx.quick and not ctx.primary:
        return

    def body(s):
        full = build_duck_spec(s)
        T = np.array(full["T"], dtype=float)
        V = np.array(full["V"], dtype=float)
        ref = free_energy_derivs(full["nu"], full["gam"], full["g"], full["weights"], T, V)
        it, iv = 0, 0
        mp = mp_reference_point(full["nu"][iv], full["gam"][iv], full["g"][iv], full["weights"], T[it], V[iv])
        for k in ("P_zp", "A_zp"):
            if abs(ref[k][iv] - mp[k]) > 1e-9 * ref[k + "_abs"][iv]:
                raise AssertionError("reference model disagrees with mpmath on %s: %r vs %r" % (k, ref[k][iv], mp[k]))
        for k in ("P_th", "A_th", "dPdT"):
            if abs(ref[k][it, iv] - mp[k]) > 1e-8 * ref[k + "_abs"][it, iv] + 1e-300:
                raise AssertionError("reference model disagrees with mpmath on %s: %r vs %r (T=%r)" % (k, ref[k][it, iv], mp[k], T[it]))
        ctx.case({"mpmath": True, "nq": s["nq"], "na": s["na"], "T0": s["T"][0], "seed": s["seed"]}, bool(T[it] > 0),
                 classes=["mpmath-crosscheck"])

    ctx.run_given(body, duck_specs(max_nq=2, max_na=2, max_ntv=1, max_nt=1), max_examples=ctx.n(6, 200), shrink=False)


def subchecks(ctx):
    return [("identity", sub_identity), ("mpmath_crosscheck", sub_mpmath)]


def replay(ctx, payload):
    case = payload["case"]
    full = dict(case)
    for k in ("nu", "gam", "g", "pressures", "static_p", "cv"):
        full[k] = np.array(case[k], dtype=float)
    full["_case"] = case
    prior = case.get("_prior")
    if prior:                      # the calculation that ran before this one in the same process
        first = dict(prior)
        for k in ("nu", "gam", "g", "pressures", "static_p", "cv"):
            first[k] = np.array(prior[k], dtype=float)
        first["_case"] = prior
        try:
            oracle(ctx, first)
        except PropertyViolation:
            pass
    try:
        oracle(ctx, full)
    except PropertyViolation as v:
        if v.bucket.endswith("/lowT-overflow"):
            raise PropertyViolation("C01/lowT-overflow", v.message, v.case)
        raise
