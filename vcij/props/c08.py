"""C08 - symmetry relations equal the Laue-class invariants; fill returns the invariant.

Oracle: invariant subspaces computed from rotation generators (vcij.reflaue).  Both subspace inclusions
are decided completely (W subset Sol: every basis vector of W is accepted unchanged; dim Sol <= dim W: a
minimal sufficient set is accepted; plus every basis vector of the complement is refused and a direct
comparison with an own parse of the packaged relation files); filling from sufficient subsets is searched
with Hypothesis around the matroid boundary.
"""
import os
import warnings

import numpy as np
from hypothesis import strategies as st

from .. import REPO, PropertyViolation
from ..fillhelp import NAMES21, make_table, natural_basis, random_invariant, table_to_components
from ..reflaue import EXPECTED_DIM, SYSTEMS, invariant_basis, is_sufficient, nonzero_pattern
from ..reftensor import KEYS21

ID = "C08"
SHARDS = {"quick": 9, "thorough": 16}
EXHAUSTIVE = True
EXHAUSTIVE_NOTE = ("subspace equality Sol = W is decided completely for each of the nine systems (basis of W accepted "
                   "unchanged + a minimal sufficient set accepted => equal dimension); subsets and values are sampled")
RULE = ("nine systems x {basis vectors of W and of its complement (complete), random tensors in W with 1-8 rows, "
        "sufficient subsets = greedy minimal sufficient set over a Hypothesis-drawn order of the 21 components plus 0-3 "
        "extra columns; a third of the tables with independent parameters of 1e-7..1e-4 next to ones of order 100}; non-trivial = system != triclinic, subset != all 21 and all independent parameters non-zero; "
        "distinct by (system, subset, seed, rows)")
ASSUMPTIONS = [
    "standard setting: principal axis z, two-fold axis x where present, unique axis y for monoclinic",
    "tolerance 1e-9 * ||w|| on returned components; 'refused' = fill_cij raises",
]


def call_fill(table, system, **kw):
    from cij.util.fill import fill_cij
    with warnings.catch_warnings():
        warnings.simplefilter("ignore")
        return fill_cij(table.copy(), system, **kw)


def expect_equal_invariant(ctx, out, w, case, bucket, atol_drop=1e-8):
    """returned table must equal w on all 21 components; identically vanishing ones omitted."""
    comps, dup = table_to_components(out)
    if dup:
        raise PropertyViolation(bucket + "/duplicate-columns", "duplicate modulus columns %r" % dup, case)
    scale = max(float(np.max(np.abs(w))), 1.0)
    for n, k in enumerate(KEYS21):
        col = w[:, n]
        vanishing = bool(np.all(np.abs(col) < atol_drop))
        if vanishing:
            if k in comps:
                if ctx.is_excluded(bucket + "/zero-not-omitted"):
                    continue            # open known finding: tolerated for exactly this system/clause, and counted
                raise PropertyViolation(bucket + "/zero-not-omitted", "vanishing component c%d%d is present in the result" % k, case)
            continue
        if k not in comps:
            raise PropertyViolation(bucket + "/missing-component", "component c%d%d missing in the result" % k, case)
        if comps[k].shape != col.shape or np.max(np.abs(comps[k] - col)) > 1e-9 * scale:
            raise PropertyViolation(bucket + "/wrong-value", "component c%d%d: got %r expected %r" % (
                k + (comps[k][:3].tolist(), col[:3].tolist())), case)


# ---------------------------------------------------------------------------------------------------
def parse_relations(system):
    """Own parse of the packaged relation file -> matrix R (nrel x 21) with R x = 0 (white-box cross-check)."""
    import sympy
    from sympy.parsing.sympy_parser import parse_expr
    path = os.path.join(REPO, "cij", "data", "constraints", system)
    syms = [sympy.Symbol(n) for n in NAMES21]
    rows = []
    with open(path) as fp:
        for line in fp:
            if not line.strip():
                continue
            parts = [parse_expr(p) for p in line.split("=")]
            for p in parts[1:]:
                e = sympy.expand(parts[0] - p)
                rows.append([float(e.coeff(s)) for s in syms])
                if e.subs({s: 0 for s in syms}) != 0:
                    raise PropertyViolation("C08/relations/inhomogeneous", "relation with a constant term in %s" % system, {"system": system})
    return np.array(rows, dtype=float).reshape(-1, 21)


def sub_subspaces(ctx):
    """Complete decision of Sol = W per system."""
    for si, system in enumerate(SYSTEMS):
        if si % ctx.nshards != ctx.shard:
            continue
        B, Bperp = invariant_basis(system)
        dim = B.shape[1]
        nat = natural_basis(system)
        tric = system == "triclinic"
        # (i) W subset Sol: each natural basis vector (scaled) accepted and returned unchanged
        for j in range(dim):
            w = np.outer([100.0, 80.0], nat[:, j])
            case = {"system": system, "clause": "W-basis-accepted", "basis": j, "vector": nat[:, j].tolist()}
            try:
                out = call_fill(make_table(w, KEYS21), system)
            except Exception as e:  # noqa
                raise PropertyViolation("C08/system=%s/invariant-refused" % system,
                                        "invariant tensor refused: %s: %s" % (type(e).__name__, str(e)[:200]), case)
            expect_equal_invariant(ctx, out, w, case, "C08/system=%s" % system)
            ctx.case(case, not tric, classes=["W-basis", system])
        # (ii) each basis vector of the complement is refused when added to an invariant tensor
        w0 = random_invariant(system, np.random.default_rng(7), 2)
        for j in range(Bperp.shape[1]):
            u = np.outer([100.0, 100.0], Bperp[:, j])
            case = {"system": system, "clause": "complement-refused", "basis": j, "vector": Bperp[:, j].tolist()}
            try:
                out = call_fill(make_table(w0 + u, KEYS21), system)
            except Exception:
                ctx.case(case, True, classes=["complement-basis", system])
                continue
            raise PropertyViolation("C08/system=%s/non-invariant-accepted" % system,
                                    "tensor with a component outside the invariant subspace accepted", case)
        # (iii) dim Sol <= dim W: a minimal sufficient set is accepted and gives back w
        w = random_invariant(system, np.random.default_rng(11), 3)
        piv = [k for k, row in zip(KEYS21, nat) if np.count_nonzero(row) == 1 and abs(row.sum() - 1) < 1e-12 and np.argmax(row) >= 0]
        minimal = pivot_keys(system)
        if not is_sufficient(system, minimal) or len(minimal) != dim:
            raise AssertionError("reference: pivots are not a minimal sufficient set")
        idx = [KEYS21.index(k) for k in minimal]
        case = {"system": system, "clause": "minimal-sufficient-accepted", "subset": ["%d%d" % k for k in minimal]}
        try:
            out = call_fill(make_table(w[:, idx], minimal), system)
        except Exception as e:  # noqa
            raise PropertyViolation("C08/system=%s/sufficient-refused" % system,
                                    "minimal sufficient set refused: %s: %s" % (type(e).__name__, str(e)[:200]), case)
        expect_equal_invariant(ctx, out, w, case, "C08/system=%s" % system)
        ctx.case(case, not tric, classes=["minimal-sufficient", system])
        # (iv) white-box: null space of the packaged relations equals W
        R = parse_relations(system)
        case = {"system": system, "clause": "relation-file-nullspace"}
        if R.shape[0]:
            if np.max(np.abs(R @ B)) > 1e-9:
                raise PropertyViolation("C08/system=%s/relations-exclude-invariant" % system,
                                        "a packaged relation is violated by an invariant tensor", case)
            rank = np.linalg.matrix_rank(R, tol=1e-9)
        else:
            rank = 0
        if 21 - rank != dim:
            raise PropertyViolation("C08/system=%s/relations-too-weak" % system,
                                    "relations leave %d free parameters, the Laue class has %d" % (21 - rank, dim), case)
        ctx.case(case, not tric, classes=["relation-file", system])


def pivot_keys(system):
    nat = natural_basis(system)
    piv = []
    for j in range(nat.shape[1]):
        col = nat[:, j]
        # pivot = first component where this vector is 1 and all other basis vectors are 0
        for i in range(21):
            if abs(col[i] - 1) < 1e-12 and np.count_nonzero(np.abs(nat[i, :]) > 1e-12) == 1:
                piv.append(KEYS21[i])
                break
    return piv


# ---------------------------------------------------------------------------------------------------
@st.composite
def fill_cases(draw):
    system = draw(st.sampled_from(SYSTEMS))
    order = draw(st.permutations(list(range(21))))
    extra = draw(st.integers(0, 3))
    nrows = draw(st.integers(1, 8))
    seed = draw(st.integers(0, 2 ** 32 - 1))
    zero_some = draw(st.booleans())
    return {"system": system, "order": list(order), "extra": extra, "nrows": nrows, "seed": seed, "zero_some": zero_some,
            "zero_one_row": draw(st.booleans()), "index": draw(st.sampled_from(["default", "default", "reversed", "offset", "float"])),
            "tiny_some": draw(st.sampled_from([False, False, True]))}


def subset_from_order(system, order, extra):
    B, _ = invariant_basis(system)
    chosen, rank = [], 0
    rest = []
    for i in order:
        trial = chosen + [i]
        r = int(np.sum(np.linalg.svd(B[trial, :], compute_uv=False) > 1e-9))
        if r > rank and rank < B.shape[1]:
            chosen, rank = trial, r
        else:
            rest.append(i)
    chosen = chosen + rest[:extra]
    return [KEYS21[i] for i in chosen]


def fill_oracle(ctx, c):
    system = c["system"]
    rng = np.random.default_rng(c["seed"])
    w = random_invariant(system, rng, c["nrows"], zero_some=c["zero_some"], zero_one_row=c.get("zero_one_row", False), tiny_some=c.get("tiny_some", False))
    keys = subset_from_order(system, c["order"], c["extra"])
    if not is_sufficient(system, keys):
        raise AssertionError("reference: generated subset is not sufficient")
    idx = [KEYS21.index(k) for k in keys]
    case = dict(c, subset=["%d%d" % k for k in keys])
    bucket = "C08/system=%s" % system
    from ..fillhelp import reindex
    try:
        out = call_fill(reindex(make_table(w[:, idx], keys), c.get("index", "default")), system)
    except Exception as e:  # noqa
        raise PropertyViolation(bucket + "/sufficient-refused", "sufficient consistent table refused: %s: %s" % (
            type(e).__name__, str(e)[:200]), case)
    expect_equal_invariant(ctx, out, w, case, bucket)
    return keys, w


def sub_fill(ctx):
    def body(c):
        keys, w = fill_oracle(ctx, c)
        nat_nonzero = not c["zero_some"]
        nt = c["system"] != "triclinic" and len(keys) < 21 and nat_nonzero
        ctx.case({"system": c["system"], "subset": ["%d%d" % k for k in keys], "nrows": c["nrows"], "seed": c["seed"]}, nt,
                 classes=[c["system"], "extra=%d" % c["extra"], "zeroed-parameters" if c["zero_some"] else "all-parameters-nonzero",
                          "parameter-zero-at-one-volume" if c.get("zero_one_row") and c["nrows"] > 1 else "no-single-row-zero",
                          "row-index-" + c.get("index", "default"), "tiny-components" if c.get("tiny_some") else "no-tiny-components"])

    ctx.run_given(body, fill_cases(), max_examples=ctx.n(9 * 120, 9 * 5000), shrink=True)


def sub_elast_data(ctx):
    """apply_symetry_on_elast_data on a parsed static table object."""
    from cij.io.traditional.elast_dat import ElastData, ElastVolumeData, apply_symetry_on_elast_data
    import cij.util as U

    def body(c):
        system = c["system"]
        if system == "triclinic":
            return
        rng = np.random.default_rng(c["seed"])
        w = random_invariant(system, rng, c["nrows"])
        keys = subset_from_order(system, c["order"], c["extra"])
        idx = [KEYS21.index(k) for k in keys]
        vols = [ElastVolumeData(100.0 - i, dict((U.c_(*k), float(w[i, j])) for k, j in zip(keys, idx))) for i in range(c["nrows"])]
        data = ElastData(100.0, c["nrows"], 10.0, vols, [])
        case = dict(c, subset=["%d%d" % k for k in keys], clause="apply_symetry_on_elast_data")
        with warnings.catch_warnings():
            warnings.simplefilter("ignore")
            ctx.observe(apply_symetry_on_elast_data, data, {"system": system}, _bucket="C08/elast-data/system=%s" % system, _case=case)
        scale = max(float(np.max(np.abs(w))), 1.0)
        for i, vol in enumerate(data.volumes):
            got = {tuple(k.voigt): v for k, v in vol.static_elastic_modulus.items()}
            for n, k in enumerate(KEYS21):
                if np.all(np.abs(w[:, n]) < 1e-8):
                    if k in got:
                        raise PropertyViolation("C08/elast-data/zero-not-omitted", "c%d%d present" % k, case)
                elif k not in got or abs(got[k] - w[i, n]) > 1e-9 * scale:
                    raise PropertyViolation("C08/elast-data/wrong-value", "row %d c%d%d: %r vs %r" % (i, k[0], k[1], got.get(k), w[i, n]), case)
        ctx.case({"system": system, "subset": case["subset"], "nrows": c["nrows"], "seed": c["seed"], "via": "elast_data"},
                 len(keys) < 21, classes=["elast-data", system])

    ctx.run_given(body, fill_cases(), max_examples=ctx.n(9 * 12, 9 * 300), shrink=True)


def sub_exact(ctx):
    """both tiers (cheap): the subspace equality decided in exact arithmetic (sympy, sqrt(3) kept symbolic): the null space of
    the packaged relations and the invariant subspace of the Laue-group generators contain each other."""
    import sympy as sp
    from ..reftensor import PAIR_OF_VOIGT, VOIGT_OF_PAIR
    h = sp.Rational(1, 2)
    r3 = sp.sqrt(3) / 2

    def rz(c, s_):
        return sp.Matrix([[c, -s_, 0], [s_, c, 0], [0, 0, 1]])
    C2x = sp.diag(1, -1, -1)
    C2y = sp.diag(-1, 1, -1)
    C3_111 = sp.Matrix([[0, 0, 1], [1, 0, 0], [0, 1, 0]])
    gens = {"triclinic": [sp.eye(3)], "monoclinic": [C2y], "orthorhombic": [C2x, C2y], "tetragonal7": [rz(0, 1)],
            "tetragonal6": [rz(0, 1), C2x], "trigonal7": [rz(-h, r3)], "trigonal6": [rz(-h, r3), C2x],
            "hexagonal": [rz(h, r3), C2x], "cubic": [rz(0, 1), C3_111]}

    def action(R):
        M = sp.zeros(21, 21)
        for n, (I, J) in enumerate(KEYS21):
            (a, b), (c_, d) = PAIR_OF_VOIGT[I], PAIR_OF_VOIGT[J]
            # C'_{ijkl} = R_ai R_bj R_ck R_dl C_abcd ; column n = image of basis tensor n (all its index permutations)
            members = set()
            for (p, q) in ((a, b), (b, a)):
                for (r, t) in ((c_, d), (d, c_)):
                    members.add((p, q, r, t))
                    members.add((r, t, p, q))
            for m, (I2, J2) in enumerate(KEYS21):
                (i, j), (k, l) = PAIR_OF_VOIGT[I2], PAIR_OF_VOIGT[J2]
                M[m, n] = sp.nsimplify(sum(R[p - 1, i - 1] * R[q - 1, j - 1] * R[r - 1, k - 1] * R[t - 1, l - 1] for (p, q, r, t) in members))
        return M

    for si, system in enumerate(SYSTEMS):
        if si % ctx.nshards != ctx.shard:
            continue
        stack = sp.Matrix.vstack(*[action(R) - sp.eye(21) for R in gens[system]])
        W = stack.nullspace()
        from sympy.parsing.sympy_parser import parse_expr
        syms = [sp.Symbol(n) for n in NAMES21]
        rows = []
        with open(os.path.join(REPO, "cij", "data", "constraints", system)) as fp:
            for line in fp:
                if not line.strip():
                    continue
                parts = [parse_expr(p) for p in line.split("=")]
                for p in parts[1:]:
                    e = sp.expand(parts[0] - p)
                    rows.append([e.coeff(sy) for sy in syms])
        R = sp.Matrix(rows) if rows else sp.zeros(0, 21)
        sol_dim = 21 - (R.rank() if rows else 0)
        case = {"system": system, "clause": "exact-subspace-equality"}
        if len(W) != EXPECTED_DIM[system]:
            raise AssertionError("exact invariant subspace of %s has dimension %d" % (system, len(W)))
        if sol_dim != len(W):
            raise PropertyViolation("C08/system=%s/relations-too-weak" % system, "exact: relations leave %d parameters, the Laue class has %d" % (
                sol_dim, len(W)), case)
        for wv in W:
            if rows and any(sp.simplify(x) != 0 for x in (R * wv)):
                raise PropertyViolation("C08/system=%s/relations-exclude-invariant" % system, "exact: an invariant tensor violates a packaged relation", case)
        ctx.case(case, system != "triclinic", classes=["exact-sympy", system])


def subchecks(ctx):
    return [("subspaces", sub_subspaces), ("fill_sufficient", sub_fill), ("elast_data", sub_elast_data), ("exact", sub_exact)]


def replay(ctx, payload):
    case = payload["case"]
    sub = payload.get("subcheck")
    if sub == "subspaces" or "clause" in case and case.get("clause") != "apply_symetry_on_elast_data":
        # re-run the complete decision for that system
        system = case["system"]
        c2 = type(ctx)(ctx.prop_id, ctx.tier, ctx.base_seed, SYSTEMS.index(system), len(SYSTEMS))
        c2.sub = "subspaces"
        sub_subspaces(c2)
        return
    fill_oracle(ctx, case)
