"""C05 - total modulus = interpolated static table + phonon part, end to end from files.

Differential oracle: vcij.refmodel recomputes static part, strain fractions, static pressure and the phonon
part of every component from the data-set description (truth as written to the files); spectra are chosen so
that the configured interpolant is exact, hence no interpolation code is needed in the reference.
Metamorphic clauses: shifting / scaling the static table.
"""
import os
import warnings

import numpy as np
from hypothesis import strategies as st

from .. import PropertyViolation
from ..datasets import Dataset, Workdir, dataset_specs, materialise, place_pressures, write_input02, write_settings
from ..refmodel import PhononReference, static_moduli, static_pressure, strain_fractions, validated_frame
from ..reftensor import KEYS21
from .. import refphys

ID = "C05"
SHARDS = {"quick": 16, "thorough": 16}
RULE = ("Hypothesis draws data sets (5-9 volumes, 1-4 q-points, 1-3 atoms, spectrum ln nu polynomial in ln V of a degree the "
        "configured interpolant reproduces exactly, BM3 static energy, PD static tensors in one of nine systems with a sufficient "
        "or complete column subset in drawn order, optional lattice block) and settings (interpolator x order, NT, DT, T_MIN, NTV, "
        "volume_ratio, pressures inside the qha range) and a history (nothing / another calculation in the same process on the same files with volume_ratio x 1.07 or T_MIN + 7 K); non-trivial = lattice block or non-orthotropic system, >=2 q-points and T>0 rows; "
        "distinct by the drawn spec")
ASSUMPTIONS = [
    "QHA's P(T,V) and C_V are observed (trusted producer), as the property states for the off-diagonal pressure term",
    "frame of each shear key taken from the public transformation_matrix after validating it is an orthonormal eigenbasis",
    "adaptive tolerance 3*|ref_best-ref_coarse| + 2e-6*scale where the code differentiates numerically (strain fractions, static pressure)",
]

REL = 2e-6


@st.composite
def cases(draw):
    interp = draw(st.sampled_from(["lsq_poly", "lsq_poly", "spline", "lagrange", "krogh", "pchip", "akima"]))
    s = draw(dataset_specs(interpolators=[interp], max_nq=4, max_na=3))
    nv, order = s["nv"], s["order"]
    if interp in ("lsq_poly", "spline"):
        order = min(order, 3)
        s["order"] = order
        maxdeg = order
    elif interp in ("lagrange", "krogh"):
        interval = int(np.ceil(nv / order))
        nnodes = len(range(0, nv, interval))
        # beyond 4 nodes the monomial-basis evaluation loses up to 1e-3 (see C11): the interpolant is then not treated as
        # exact here, the reference takes the observed interpolation instead ('generic' family below)
        maxdeg = min(3, nnodes - 1) if nnodes <= 4 else 0
    else:
        maxdeg = 1
    fam = draw(st.sampled_from(["power", "poly2", "poly3"][:maxdeg] + ["generic"]))
    s["family"] = fam
    s["metamorphic"] = draw(st.sampled_from(["none", "none", "shift", "scale"]))
    s["prior"] = draw(st.sampled_from(["none", "other-ratio", "none", "other-temperatures", "other-ratio"]))     # what ran before in this process
    s["static_rows"] = draw(st.sampled_from(["as-is", "as-is", "reversed", "shuffled"]))     # the static table has its own volume column
    if draw(st.integers(0, 7)) == 0:
        # a fine volume / pressure grid (hundreds of points, steps of ~1e-3 in ln V) with a lattice block
        s["ntv"] = draw(st.sampled_from([161, 201, 321, 401]))
        s["nt"] = min(s["nt"], 2)
        s["lattice"] = True
    return s


def observe(ctx, s, ds, qs, case, static_override=None):
    import cij.core.calculator as cc
    with Workdir() as wd, warnings.catch_warnings(), np.errstate(all="ignore"):
        warnings.simplefilter("ignore")
        path, cfg = materialise(ds, wd, qs)
        row_order = None
        if s.get("static_rows", "as-is") == "reversed":
            row_order = list(range(ds.nv_static))[::-1]
        elif s.get("static_rows") == "shuffled":
            row_order = [int(x) for x in np.random.default_rng(s["seed"] ^ 0x77).permutation(ds.nv_static)]
        if static_override is not None or row_order is not None:
            write_input02(os.path.join(wd, "input02"), ds, table=static_override, row_order=row_order)
        prior = s.get("prior", "none")
        if prior != "none":
            # history: another calculation ran in this process on the same files with another volume grid / temperature
            # grid (same NTV, same static table).  Its outcome is not observed; a refusal of that grid is fine.
            qs2 = dict(qs, volume_ratio=float(qs["volume_ratio"]) * 1.07) if prior == "other-ratio" else dict(qs, T_MIN=float(qs["T_MIN"]) + 7.0)
            ext = os.path.splitext(path)[1]
            write_settings(os.path.join(wd, "prior" + ext), ds, qs2)
            try:
                cc.Calculator(os.path.join(wd, "prior" + ext))
            except Exception:
                pass
        calc = ctx.observe(cc.Calculator, path, _bucket="C05/crash", _case=case)
        obs = {
            "T": np.array(calc.t_array, dtype=float),
            "V": np.array(calc.v_array, dtype=float),
            "static_p": np.array(calc.static_p_array, dtype=float),
            "pressures": np.array(calc.volume_base.pressures, dtype=float),
            "cv": np.array(calc.qha_calculator.volume_base.heat_capacity, dtype=float),
            "iso": {tuple(k.voigt): np.array(v) for k, v in calc.modulus_isothermal.items()},
            "adi": {tuple(k.voigt): np.array(v) for k, v in calc.modulus_adiabatic.items()},
            "keys": [tuple(k.voigt) for k in calc.modulus_keys],
            "freq": np.array(calc.freq_array, dtype=float),
            "mode_gamma": [np.array(x, dtype=float) for x in calc.mode_gamma],
        }
    return obs


_frames = {}


def frame_of(key):
    if key not in _frames:
        _frames[key] = validated_frame(key)
    Tm, ok = _frames[key]
    if not ok:
        raise PropertyViolation("C05/frame-invalid", "transformation_matrix of %d%d is not an orthonormal eigenbasis" % key, None)
    return Tm


def reference(ds, s, obs):
    """Reference isothermal/adiabatic tensors on the observed grid, best and coarse."""
    V, T = obs["V"], obs["T"]
    stat, keys = static_moduli(ds, V, s["apply_system"])
    e_best, e_coarse = strain_fractions(ds, V)
    out = {}
    if s["family"] == "generic":
        # no interpolant is exact for these spectra: the reference takes the interpolated (omega, gamma, V dgamma/dV) as
        # observed on the calculator (their mutual consistency is C11's business) and checks the rest of the pipeline
        nu_, gam_, g_ = obs["freq"], obs["mode_gamma"][1], obs["mode_gamma"][0]
    else:
        nu_, gam_, g_ = ds.nu(V), ds.gamma(V), ds.dgamma(V)
    for tag, e in (("best", e_best), ("coarse", e_coarse)):
        ph = PhononReference(nu_, gam_, g_, ds.weights, T, V,
                             obs["pressures"], obs["static_p"], obs["cv"], frame_of)
        out[tag] = {k: ph.value(k, e) for k in keys}
        if not ds.spec["lattice"]:
            out["coarse"] = out["best"]
            break
    return stat, keys, out


def oracle(ctx, s, ds, qs, case):
    obs = observe(ctx, s, ds, qs, case)
    T, V = obs["T"], obs["V"]
    # ---- grids ----------------------------------------------------------------------------------------------
    want_T = s["tmin"] + s["dt"] * np.arange(s["nt"] + 4)
    if T.shape != want_T.shape or np.max(np.abs(T - want_T)) > 1e-9 * max(1.0, np.max(np.abs(want_T))):
        raise PropertyViolation("C05/grid/temperature", "t_array is %r..., expected T_MIN+k*DT, k<NT+4" % (T[:3].tolist(),), case)
    vmax, vmin = ds.volumes.max(), ds.volumes.min()
    if (V.shape != (s["ntv"],) or abs(V[0] - vmax * s["ratio"]) > 1e-9 * vmax or abs(V[-1] - vmin / s["ratio"]) > 1e-9 * vmax
            or not np.all(np.diff(V) < 0)):
        raise PropertyViolation("C05/grid/volume", "v_array does not span [Vmin/ratio, Vmax*ratio] with NTV decreasing points", case)
    # ---- static pressure ----------------------------------------------------------------------------------------
    best, coarse = static_pressure(ds, V)
    sc = np.max(np.abs(best)) + 1e-12
    if np.any(np.abs(obs["static_p"] - best) > 3 * np.abs(best - coarse) + 1e-7 * sc):
        i = int(np.argmax(np.abs(obs["static_p"] - best) - 3 * np.abs(best - coarse)))
        raise PropertyViolation("C05/static-pressure", "static_p_array[%d]=%r, reference %r (coarse %r)" % (
            i, obs["static_p"][i], best[i], coarse[i]), case)
    # ---- tensors ---------------------------------------------------------------------------------------------------
    mg = obs["mode_gamma"]
    if (len(mg) != 3 or mg[2].shape != mg[1].shape or np.max(np.abs(mg[2] - mg[1] ** 2)) > 1e-12 * (1 + np.max(mg[1] ** 2))
            or np.any(obs["freq"][:, 0, :3] != 0) or obs["freq"].shape != (len(V), ds.nq, ds.npm)):
        raise PropertyViolation("C05/mode-arrays", "interpolated mode arrays are not (ntv,nq,np) [V dgamma/dV, gamma, gamma^2] with Gamma-acoustic zeros", case)
    if s["family"] != "generic":
        # exact-interpolant families: the interpolated spectrum must be the analytic one
        m_ = np.ones((ds.nq, ds.npm), dtype=bool)
        m_[0, :3] = False
        if np.max(np.abs(np.log(np.where(m_, obs["freq"], 1.0)) - np.log(np.where(m_, ds.nu(V), 1.0)))) > 1e-6:
            raise PropertyViolation("C05/interpolated-frequencies", "interpolated frequencies differ from the (exactly representable) spectrum", case)
    stat, keys, ref = reference(ds, s, obs)
    if sorted(obs["keys"]) != sorted(keys):
        raise PropertyViolation("C05/keys", "components %r, expected %r" % (sorted(obs["keys"]), sorted(keys)), case)
    scale = max(float(np.max(np.abs(stat[k]))) for k in keys)
    phscale = max(float(np.max(np.abs(ref["best"][k][0]))) for k in keys if k[1] <= 3)
    for k in keys:
        for n, name in ((0, "iso"), (1, "adi")):
            got = obs[name][k]
            if np.iscomplexobj(got):
                raise PropertyViolation("C05/complex", "c%d%d %s is complex" % (k[0], k[1], name), case)
            want = stat[k][None, :] + ref["best"][k][n]
            slack = 3 * np.abs(ref["best"][k][n] - ref["coarse"][k][n]) + REL * phscale + 1e-7 * scale
            ok = np.abs(got - want) <= slack
            if name == "adi":
                # adiabatic values are claimed only where the QHA heat capacity is positive (and at T=0)
                ok = ok | ~np.isfinite(want) | ~((obs["cv"] > 0) | (T[:, None] == 0))
            if got.shape != want.shape or not np.all(ok):
                idx = tuple(int(x) for x in np.argwhere(~ok)[0]) if got.shape == want.shape else ()
                raise PropertyViolation(
                    "C05/value/%s/%s" % ("shear" if k[1] >= 4 else ("longitudinal" if k[0] == k[1] else "offdiagonal"), name),
                    "c%d%d %s at %r: code %r, reference %r = static %r + phonon %r (slack %.3g)" % (
                        k[0], k[1], name, idx, float(got[idx]), float(want[idx]), float(stat[k][idx[1]]),
                        float(ref["best"][k][n][idx]), float(slack[idx])), case)
    # ---- metamorphic: static table shifted / scaled ----------------------------------------------------------------
    if s["metamorphic"] != "none":
        tab = np.array(ds.static_full)
        if s["metamorphic"] == "shift":
            # add a symmetric increment that is itself in the invariant subspace: a multiple of the table at other power
            delta = 0.25 * tab * (ds.vref / ds.static_volumes)[:, None]
            tab2 = tab + delta
        else:
            tab2 = tab * 1.7
        obs2 = observe(ctx, s, ds, qs, case, static_override=tab2)
        ds2_full = ds.static_full
        try:
            ds.static_full = tab2
            stat2, keys2 = static_moduli(ds, V, s["apply_system"])
        finally:
            ds.static_full = ds2_full
        for k in keys:
            for name in ("iso", "adi"):
                ph1 = obs[name][k] - stat[k][None, :]
                ph2 = obs2[name][k] - stat2[k][None, :]
                fin = np.isfinite(ph1) & np.isfinite(ph2)
                if not np.any(fin):
                    continue
                if np.max(np.abs(ph1 - ph2)[fin]) > 2e-8 * scale:
                    raise PropertyViolation("C05/metamorphic/%s" % s["metamorphic"],
                                            "phonon part of c%d%d changes when the static table is %s" % (k[0], k[1], s["metamorphic"]), case)
                d = (obs2[name][k] - obs[name][k])
                if np.max(np.abs(d[fin] - np.broadcast_to((stat2[k] - stat[k])[None, :], d.shape)[fin])) > 2e-8 * scale:
                    raise PropertyViolation("C05/metamorphic/%s" % s["metamorphic"],
                                            "static change of c%d%d is not the same at every temperature" % k, case)
    return obs, keys


def build(s):
    ds = Dataset(s)
    r = place_pressures(ds)
    return ds, (r[0] if r else None)


def sub_end_to_end(ctx):
    def body(s):
        ds, qs = build(s)
        if qs is None:
            ctx.stats.skip("unusable-dataset(non-monotonic P or range<1GPa)")
            return
        obs, keys = oracle(ctx, s, ds, qs, s)
        nonortho = any(k not in ((1, 1), (2, 2), (3, 3), (1, 2), (1, 3), (2, 3), (4, 4), (5, 5), (6, 6)) for k in keys)
        nt = (s["lattice"] or nonortho) and s["nq"] >= 2 and bool(np.any(obs["T"] > 0))
        cl = ["interp-" + s["interpolator"], "family-" + s["family"], "system-" + s["system"],
              "fill-requested" if s["apply_system"] else "no-fill", "lattice" if s["lattice"] else "no-lattice",
              "metamorphic-" + s["metamorphic"], "non-orthotropic-keys" if nonortho else "orthotropic-keys",
              "static-rows-" + s.get("static_rows", "as-is"), "prior-run-" + s.get("prior", "none"), "NTV>150" if s["ntv"] > 150 else "NTV<=41"]
        ctx.case(s, nt, classes=cl)

    ctx.run_given(body, cases(), max_examples=ctx.n(160, 10000), shrink=not ctx.quick)


def subchecks(ctx):
    return [("end_to_end", sub_end_to_end)]


def replay(ctx, payload):
    s = payload["case"]
    ds, qs = build(s)
    if qs is None:
        return
    oracle(ctx, s, ds, qs, s)
