"""End-to-end reference model for Calculator results (oracle for C05; pieces reused by C06 C07 C13 C15).

Everything is recomputed from the data set description (the truth as written to the files) with own code:
static part (own LSQ cubic in Eulerian strain of V c(V), own symmetric completion), phonon part (reference
free energy of vcij.refphys, own strain-energy-rotation recursion for shear keys), strain fractions (own fit of
the axis lengths, analytic logarithmic derivative + a replica of centred differences for the adaptive
tolerance), static pressure (analytic derivative of the own cubic fit + gradient replica).
"""
import numpy as np

from . import refphys
from .reflaue import complete
from .reftensor import KEYS21, PAIR_OF_VOIGT, canon


def eulerian(v0, v):
    return 0.5 * ((v0 / np.asarray(v, dtype=float)) ** (2.0 / 3.0) - 1.0)


def lsq_poly(x, y, deg):
    """Least-squares polynomial by lstsq on a Vandermonde matrix; returns coefficients (increasing powers)."""
    A = np.vander(np.asarray(x, dtype=float), deg + 1, increasing=True)
    coef, *_ = np.linalg.lstsq(A, np.asarray(y, dtype=float), rcond=None)
    return coef


def polyval_inc(coef, x):
    x = np.asarray(x, dtype=float)
    out = np.zeros(x.shape + np.shape(coef)[1:])
    for c in coef[::-1]:
        out = out * x[(...,) + (None,) * (out.ndim - x.ndim)] + c
    return out


def polyder_inc(coef):
    n = np.arange(1, len(coef))
    return coef[1:] * n.reshape((-1,) + (1,) * (np.ndim(coef) - 1))


# ----------------------------------------------------------------------------------------------------
def static_moduli(ds, v_array, apply_system):
    """{key: c_static(v_array)} in atomic units and the expected key list."""
    vols = ds.static_volumes
    keys = list(ds.static_keys)
    tab_gpa = np.array([[ds.static_full[i, KEYS21.index(k)] for k in keys] for i in range(len(vols))])
    if apply_system and ds.system != "triclinic":
        w, d2 = complete(ds.system, keys, tab_gpa)
        full = w
        out_keys = [k for n, k in enumerate(KEYS21) if not np.all(np.abs(full[:, n]) < 1e-8)]
        cols = {k: full[:, KEYS21.index(k)] for k in out_keys}
    else:
        out_keys = keys
        cols = {k: tab_gpa[:, n] for n, k in enumerate(keys)}
    f = eulerian(vols[0], vols)
    fa = eulerian(vols[0], v_array)
    res = {}
    for k, col in cols.items():
        coef = lsq_poly(f, vols * col * refphys.GPA_TO_AU, 3)
        res[k] = polyval_inc(coef, fa) / v_array
    return res, out_keys


def static_pressure(ds, v_array):
    """(best, coarse): analytic derivative of the own cubic fit of the static energies; replica of numpy.gradient."""
    v0 = ds.volumes[0]
    f = eulerian(v0, ds.volumes)
    coef = lsq_poly(f, ds.energies, 3)
    fa = eulerian(v0, v_array)
    dEdf = polyval_inc(polyder_inc(coef), fa)
    dfdV = -(1.0 / 3.0) * (v0 / v_array) ** (2.0 / 3.0) / v_array
    best = -dEdf * dfdV
    E = polyval_inc(coef, fa)
    coarse = -np.gradient(E) / np.gradient(v_array)
    return best, coarse


def strain_fractions(ds, v_array):
    """(best, coarse) axial strain fractions (ntv,3): equal thirds without lattice block; otherwise the normalised
    logarithmic derivatives of the fitted axis lengths."""
    ntv = len(v_array)
    if not ds.spec["lattice"]:
        e = np.full((ntv, 3), 1.0 / 3.0)
        return e, e.copy()
    vols = ds.static_volumes
    lat = ds.lattice(vols)
    v0 = vols[0]
    f = eulerian(v0, vols)
    fa = eulerian(v0, v_array)
    dfdlnV = -(1.0 / 3.0) * (v0 / v_array) ** (2.0 / 3.0)
    best = np.zeros((ntv, 3))
    coarse = np.zeros((ntv, 3))
    for i in range(3):
        coef = lsq_poly(f, vols * lat[:, i], 3)
        p = polyval_inc(coef, fa)
        dp = polyval_inc(polyder_inc(coef), fa)
        best[:, i] = dp / p * dfdlnV - 1.0            # d ln a / d ln V
        a = p / v_array
        tmp = a[[0, *range(ntv), -1]]
        coarse[:, i] = (tmp[2:] - tmp[:-2]) / (tmp[2:] + tmp[:-2])
    best = best / best.sum(axis=1, keepdims=True)
    coarse = coarse / coarse.sum(axis=1, keepdims=True)
    return best, coarse


# ----------------------------------------------------------------------------------------------------
class PhononReference:
    """Phonon part of every component on the (T,V) grid from the reference free energy."""

    def __init__(self, nu, gam, g, weights, T, V, p_total, p_static, cv, frame_of):
        self.T = np.asarray(T, dtype=float)
        self.V = np.asarray(V, dtype=float)
        self.d = refphys.free_energy_derivs(nu, gam, g, weights, self.T, self.V)
        self.dp = np.asarray(p_total) - np.asarray(p_static)[None, :]
        self.cv = np.asarray(cv, dtype=float)
        self.frame_of = frame_of
        self.cache = {}

    def nonshear(self, key, e):
        """e: (ntv,3) raw axial strains (normalised here).  Returns (iso, adi)."""
        e = e / e.sum(axis=1, keepdims=True)
        (i, _), (j, _) = PAIR_OF_VOIGT[key[0]], PAIR_OF_VOIGT[key[1]]
        ei, ej = e[:, i - 1], e[:, j - 1]
        d = self.d
        A = d["A_zp"][None, :] + d["A_th"]
        P = d["P_zp"][None, :] + d["P_th"]
        if key[0] == key[1]:
            iso = A / (5 * ei ** 2)[None] + P / (3 * ei)[None]
        else:
            iso = A / (15 * ei * ej)[None] + self.dp
        with np.errstate(all="ignore"):
            gap = self.T[:, None] * self.V[None, :] * d["dPdT"] ** 2 / (9 * (ei * ej)[None] * self.cv)
        gap = np.where(self.T[:, None] == 0, 0.0, gap)
        return iso, iso + gap

    def value(self, key, e):
        ck = (key, np.round(e, 14).tobytes())
        if ck in self.cache:
            return self.cache[ck]
        if key[1] <= 3:
            out = self.nonshear(key, e)
        else:
            iso = self._shear(key, e)
            out = (iso, iso)
        self.cache[ck] = out
        return out

    def _shear(self, key, e):
        eps = np.zeros((3, 3))
        for v in key:
            i, j = PAIR_OF_VOIGT[v]
            eps[i - 1, j - 1] = 1
            eps[j - 1, i - 1] = 1
        Tm = self.frame_of(key)
        D = Tm.T @ eps @ Tm
        lam = np.diag(D)
        e_rot = np.einsum("ai,va,ai->vi", Tm, e, Tm)
        E_rot = 0.0
        for a in range(3):
            for b in range(3):
                if abs(lam[a]) < 1e-9 or abs(lam[b]) < 1e-9:
                    continue
                k2 = canon(a + 1, a + 1, b + 1, b + 1)
                E_rot = E_rot + self.value(k2, e_rot)[0] * lam[a] * lam[b] / 2
        nz = [(i, j) for i in range(3) for j in range(3) if eps[i, j] != 0]
        E_orig = 0.0
        count = 0
        for (i, j) in nz:
            for (k, l) in nz:
                k2 = canon(i + 1, j + 1, k + 1, l + 1)
                if k2 == key:
                    count += 1
                    continue
                E_orig = E_orig + self.value(k2, e)[0] / 2
        return 2 * (E_rot - E_orig) / count


def validated_frame(key):
    """Rotated frame of a shear key taken from the public transformation_matrix of the code under test, after
    validating that it is an orthonormal eigenbasis of the fictitious strain (any such basis is accepted)."""
    import cij.util as U
    from cij.core.phonon_contribution.shear import ShearElasticModulusPhononContribution as Shear
    obj = Shear(np.ones((1, 3)), U.c_(*key))
    Tm = np.real(np.asarray(obj.transformation_matrix)).astype(float)
    eps = np.zeros((3, 3))
    for v in key:
        i, j = PAIR_OF_VOIGT[v]
        eps[i - 1, j - 1] = 1
        eps[j - 1, i - 1] = 1
    R = Tm.T @ eps @ Tm
    ok = (np.max(np.abs(Tm.T @ Tm - np.eye(3))) < 1e-12 and np.max(np.abs(R - np.diag(np.diag(R)))) < 1e-12
          and np.max(np.abs(np.sort(np.diag(R)) - np.linalg.eigvalsh(eps))) < 1e-12)
    return Tm, ok
