"""Synthetic-but-physical data sets for the end-to-end checks (C05-C07, C12-C15, C18): Hypothesis strategy,
own writers for the three input files, analytic truth for the spectrum.

The spectrum is an analytic function of volume:  ln nu_qm(V) = a0 + a1 x + a2 x^2 + a3 x^3,  x = ln(V/Vref)
(family 'power': a2 = a3 = 0; 'poly2': a3 = 0; 'poly3').  gamma = -dln nu/dln V and dgamma/dln V follow
analytically.  The static energy is a third-order Birch-Murnaghan curve.  Static elastic constants are
positive-definite tensors in the invariant subspace of the drawn crystal system, smooth in V.
"""
import json
import os
import shutil
import tempfile

import numpy as np
from hypothesis import strategies as st

from . import refphys
from .reflaue import SYSTEMS, invariant_basis, is_sufficient, nonzero_pattern, projector
from .reftensor import KEYS21, mandel, tensor_from_keys

ORTHO9 = [(1, 1), (2, 2), (3, 3), (1, 2), (1, 3), (2, 3), (4, 4), (5, 5), (6, 6)]
INTERPOLATORS = ["lsq_poly", "spline", "lagrange", "krogh", "pchip", "hermite", "akima"]


# ----------------------------------------------------------------------------------------------------
# Hypothesis strategy for the structure; large numeric payloads come from a drawn seed
@st.composite
def dataset_specs(draw, systems=None, max_nq=4, max_na=3, families=("power", "poly2", "poly3", "generic"),
                  lattice=None, interpolators=("lsq_poly",), max_nt=5, keys_mode="auto", min_nv=4, max_nv=12,
                  t_min_zero=None, dt_range=(5.0, 400.0), ntv_range=(16, 41)):
    nv = draw(st.integers(min_nv, max_nv))
    nq = draw(st.integers(1, max_nq))
    na = draw(st.integers(1, max_na))
    if na == 1 and nq == 1:
        nq = 2                       # at least three non-acoustic modes
    seed = draw(st.integers(0, 2 ** 32 - 1))
    vmax = draw(st.floats(150.0, 2500.0))
    span = draw(st.floats(1.18, 1.45))
    family = draw(st.sampled_from(list(families)))
    system = draw(st.sampled_from(list(systems or SYSTEMS)))
    apply_system = draw(st.booleans()) if system != "triclinic" else draw(st.booleans())
    has_lattice = draw(st.booleans()) if lattice is None else lattice
    interp = draw(st.sampled_from(list(interpolators)))
    if interp == "spline":
        order = draw(st.integers(2, min(5, nv - 1)))
    elif interp == "lsq_poly":
        order = draw(st.integers(1, min(5, nv - 2)))
    else:
        # node-based methods take every ceil(nv/order)-th volume: any order >= 2 is admitted, also beyond the number of volumes
        # (only for the piecewise methods: lagrange/krogh through all of 9-12 nodes are numerically unstable, as cij's
        # own comments say, so their order stays below the number of volumes, which keeps them at <= 6 nodes)
        order = draw(st.integers(2, nv + 3 if interp in ("pchip", "akima", "hermite") else nv - 1))
    b0 = draw(st.floats(60.0, 350.0))
    bp = draw(st.floats(3.2, 5.5))
    nt = draw(st.integers(1, max_nt))
    dt = draw(st.floats(*dt_range))
    tz = draw(st.booleans()) if t_min_zero is None else t_min_zero
    tmin = 0.0 if tz else draw(st.floats(0.0, 300.0))
    ntv = draw(st.integers(*ntv_range))
    if max_nt >= 3 and draw(st.integers(0, 7)) == 0:
        nt = max(1, ntv - 4)           # "square" grid: as many temperatures (incl. QHA's 4 guard rows) as volumes
    ratio = draw(st.floats(1.05, 1.3))
    f0 = draw(st.floats(0.12, 0.5))
    f1 = draw(st.floats(0.15, 0.35))
    weights_int = draw(st.booleans())
    cellmass = draw(st.floats(5.0, 1500.0))
    nv_static = draw(st.integers(4, 12))
    fmt = draw(st.sampled_from(["yaml", "json"]))
    key_seed = draw(st.integers(0, 10 ** 6))
    n_extra_keys = draw(st.integers(0, 4))
    # the line introducing the lattice block is free text for the reader
    lat_header = draw(st.sampled_from([None, None, None, "a b c", "# axis lengths (bohr)"]))
    return {"lat_header": lat_header, "nv": nv, "nq": nq, "na": na, "seed": seed, "vmax": vmax, "span": span, "family": family,
            "system": system, "apply_system": bool(apply_system), "lattice": bool(has_lattice),
            "interpolator": interp, "order": order, "b0": b0, "bp": bp, "nt": nt, "dt": dt, "tmin": tmin,
            "ntv": ntv, "ratio": ratio, "f0": f0, "f1": f1, "weights_int": weights_int, "cellmass": cellmass,
            "nv_static": nv_static, "fmt": fmt, "key_seed": key_seed, "n_extra_keys": n_extra_keys,
            "keys_mode": keys_mode}


class Dataset:
    """Expanded data set: arrays + analytic truth."""

    def __init__(self, spec):
        self.spec = s = dict(spec)
        rng = np.random.default_rng(s["seed"])
        nv, nq, na = s["nv"], s["nq"], s["na"]
        npm = 3 * na
        self.nv, self.nq, self.na, self.npm = nv, nq, na, npm
        # --- volumes: decreasing, irregular spacing
        vmax = s["vmax"]
        vmin = vmax / s["span"]
        inner = np.sort(rng.uniform(0.0, 1.0, size=nv - 2))
        # keep neighbours apart
        inner = (np.arange(1, nv - 1) + 0.6 * (inner - 0.5)) / (nv - 1)
        frac = np.concatenate([[0.0], np.sort(inner), [1.0]])
        self.volumes = np.array([float(repr(float(x))) for x in vmax - frac * (vmax - vmin)])
        self.vref = float(np.sqrt(vmax * vmin))
        # --- spectrum coefficients
        self.a0 = np.log(rng.uniform(60.0, 1200.0, size=(nq, npm)))
        self.a1 = -rng.uniform(0.4, 2.2, size=(nq, npm))               # gamma at Vref = -a1
        if s.get("nu_scale"):
            self.a0 = self.a0 + np.log(s["nu_scale"])                  # the same spectrum, every frequency scaled by a common factor
        fam = s["family"]
        self.a2 = rng.uniform(-0.8, 0.8, size=(nq, npm)) if fam in ("poly2", "poly3") else np.zeros((nq, npm))
        self.a3 = rng.uniform(-1.0, 1.0, size=(nq, npm)) if fam in ("poly3", "generic") else np.zeros((nq, npm))
        if fam == "generic":
            self.a2 = rng.uniform(-0.8, 0.8, size=(nq, npm))
        # 'generic': a smooth bump on top, so that no interpolant is exact (C05 then uses the observed interpolation)
        self.bump = rng.uniform(0.01, 0.04, size=(nq, npm)) if fam == "generic" else np.zeros((nq, npm))
        self.bump_k = rng.uniform(4.0, 9.0, size=(nq, npm))
        self.bump_p = rng.uniform(0.0, 6.28, size=(nq, npm))
        if s.get("soft_mode"):
            # one soft optical branch: positive but below 1 cm^-1 at every volume (a nearly unstable mode)
            self.a0[nq - 1, npm - 1] = np.log(0.5)
            self.a1[nq - 1, npm - 1] = -0.3
            self.a2[nq - 1, npm - 1] = self.a3[nq - 1, npm - 1] = self.bump[nq - 1, npm - 1] = 0.0
        # --- weights
        if s["weights_int"]:
            self.weights = rng.integers(1, 12, size=nq).astype(float)
        else:
            self.weights = np.round(rng.uniform(0.05, 3.0, size=nq), 6)
        self.qcoords = np.round(rng.uniform(-0.5, 0.5, size=(nq, 3)), 4)
        self.qcoords[0] = 0.0
        # --- static energy: BM3 (Ry, bohr^3)
        self.v0 = float(rng.uniform(0.97, 1.06) * vmax)
        self.b0_au = s["b0"] * refphys.GPA_TO_AU
        self.bp = s["bp"]
        self.e0 = float(rng.uniform(-400.0, -10.0))
        if s.get("big_energy"):
            self.e0 = float(rng.uniform(-9e4, -3e4))       # all-electron / large-cell total energies
        self.energies = np.array([float("%.10f" % x) for x in self.bm3(self.volumes)])
        # --- static elastic table
        self.nv_static = s["nv_static"]
        sv = np.sort(rng.uniform(vmin * 0.98, vmax * 1.02, size=self.nv_static))[::-1]
        sv[0], sv[-1] = vmax * 1.01, vmin * 0.99
        self.static_volumes = np.array([float("%.6f" % x) for x in np.sort(sv)[::-1]])
        if s.get("static_vols") == "phonon-2dec":
            # the static table tabulated at the phonon volumes, but printed with two decimals only (6 in the phonon file)
            self.nv_static = nv
            self.static_volumes = np.array([float("%.2f" % x) for x in np.sort(self.volumes)[::-1]])
        elif s.get("static_vols") == "phonon":
            self.nv_static = nv
            self.static_volumes = np.array(np.sort(self.volumes)[::-1], dtype=float)
        self.system = s["system"]
        self.static_full = self._static_tensors(rng)                     # (nv_static, 21) in GPa, in W(system)
        self.static_keys, self.filled_keys = self._choose_keys(rng)
        if s.get("tiny_coupling") and self.system in ("triclinic", "monoclinic") and not s["apply_system"]:
            # one independent coupling beyond the orthotropic nine tabulated at 1e-5..1e-4 GPa (small but not zero)
            cand = [k for k in self.static_keys if k not in ORTHO9]
            if cand:
                k = cand[int(np.random.default_rng(s["key_seed"] + 7).integers(0, len(cand)))]
                self.static_full[:, KEYS21.index(k)] *= 1e-6
                self.tiny_key = k
        # --- lattice block
        al = rng.uniform(0.15, 0.6, size=3)
        self.alpha = al / al.sum()
        self.lattice_scale = rng.uniform(0.8, 4.0, size=3)

    # ---- analytic spectrum -------------------------------------------------------------------------
    def lnnu(self, V):
        x = np.log(np.asarray(V, dtype=float) / self.vref)[..., None, None]
        return self.a0 + self.a1 * x + self.a2 * x ** 2 + self.a3 * x ** 3 + self.bump * np.sin(self.bump_k * x + self.bump_p)

    def nu(self, V):
        out = np.exp(self.lnnu(V))
        out[..., 0, :3] = 0.0
        return out

    def gamma(self, V):
        x = np.log(np.asarray(V, dtype=float) / self.vref)[..., None, None]
        out = -(self.a1 + 2 * self.a2 * x + 3 * self.a3 * x ** 2 + self.bump * self.bump_k * np.cos(self.bump_k * x + self.bump_p))
        out[..., 0, :3] = 0.0
        return out

    def dgamma(self, V):
        x = np.log(np.asarray(V, dtype=float) / self.vref)[..., None, None]
        out = -(2 * self.a2 + 6 * self.a3 * x - self.bump * self.bump_k ** 2 * np.sin(self.bump_k * x + self.bump_p)) + 0 * x
        out = np.broadcast_to(out, self.lnnu(V).shape).copy()
        out[..., 0, :3] = 0.0
        return out

    def file_frequencies(self):
        """Frequencies as written (repr precision: the truth is the value as written)."""
        return self.nu(self.volumes)

    # ---- static ------------------------------------------------------------------------------------
    def bm3(self, V):
        V = np.asarray(V, dtype=float)
        eta = (self.v0 / V) ** (2.0 / 3.0)
        return self.e0 + 9.0 * self.v0 * self.b0_au / 16.0 * ((eta - 1) ** 3 * self.bp + (eta - 1) ** 2 * (6 - 4 * eta))

    def _static_tensors(self, rng):
        P = projector(self.system)

        def spd_in_w():
            A = rng.normal(size=(6, 6))
            M = A @ A.T / 6 + np.diag(rng.uniform(0.8, 2.0, size=6))
            M *= np.array([1, 1, 1, 0.6, 0.6, 0.6])[:, None] * np.array([1, 1, 1, 0.6, 0.6, 0.6])[None, :]
            # Mandel matrix -> plain components
            f = np.array([1, 1, 1, np.sqrt(2), np.sqrt(2), np.sqrt(2)])
            comp = M / (f[:, None] * f[None, :])
            vec = np.array([comp[I - 1, J - 1] for (I, J) in KEYS21])
            return P @ vec

        ca = spd_in_w() * rng.uniform(80.0, 250.0)
        cb = spd_in_w() * rng.uniform(40.0, 120.0)
        x = self.vref / self.static_volumes
        tab = ca[None, :] * (x ** 2.2)[:, None] + cb[None, :] * (x ** 4.0)[:, None]
        tab = np.round(tab, 3)
        # rounding must not break the symmetry relations: re-project and round consistently is not possible
        # in general (factors 1/2), so keep 3 decimals only for independent parameters
        nat_full = P @ tab.T
        return nat_full.T

    def _choose_keys(self, rng):
        """Columns present in the file; and the keys expected after (optional) filling."""
        s = self.spec
        krng = np.random.default_rng(s["key_seed"])
        nz = nonzero_pattern(self.system)
        if s["apply_system"] and self.system != "triclinic":
            B, _ = invariant_basis(self.system)
            order = list(krng.permutation(21))
            chosen, rank, rest = [], 0, []
            for i in order:
                trial = chosen + [i]
                r = int(np.sum(np.linalg.svd(B[trial, :], compute_uv=False) > 1e-9))
                if r > rank and rank < B.shape[1]:
                    chosen, rank = trial, r
                else:
                    rest.append(i)
            rest_nz = [i for i in rest if KEYS21[i] in nz]
            chosen += rest_nz[: s["n_extra_keys"]]
            keys = [KEYS21[i] for i in chosen]
            assert is_sufficient(self.system, keys)
            filled = list(nz)
        else:
            if s["keys_mode"] == "ortho9+sparse":
                # the nine orthotropic constants plus one or two isolated couplings
                others = [k for k in nz if k not in ORTHO9]
                krng.shuffle(others)
                keys = ORTHO9 + others[: int(krng.integers(1, 3))]
            elif s["keys_mode"] == "ortho9+":
                others = [k for k in nz if k not in ORTHO9]
                krng.shuffle(others)
                # any subset of the other non-zero components, every size equally likely (single couplings such as
                # "nine + c35 + c46" matter as much as nearly complete sets)
                k = int(krng.integers(1, 4)) if krng.random() < 0.5 else int(krng.integers(0, len(others) + 1))
                keys = ORTHO9 + others[: min(k, len(others))]
            elif s["keys_mode"] == "any":
                allnz = list(nz)
                krng.shuffle(allnz)
                keys = allnz[: max(1, len(allnz) - s["n_extra_keys"])]
            else:
                keys = list(nz)
            keys = [k for k in keys]
            filled = list(keys)
        order = list(krng.permutation(len(keys)))
        keys = [keys[i] for i in order]
        return keys, filled

    def lattice(self, V):
        V = np.asarray(V, dtype=float)
        return self.lattice_scale[None, :] * (V[:, None] / self.vref) ** self.alpha[None, :]

    # ---- settings ------------------------------------------------------------------------------------
    def qha_settings(self, p_min, delta_p, extra=None):
        s = self.spec
        d = {"T_MIN": s["tmin"], "NT": s["nt"], "DT": s["dt"], "DT_SAMPLE": s["dt"],
             "P_MIN": p_min, "DELTA_P": delta_p, "DELTA_P_SAMPLE": delta_p, "NTV": s["ntv"],
             "order": 3, "static_only": False, "volume_ratio": s["ratio"]}
        if extra:
            d.update(extra)
        return d


# ----------------------------------------------------------------------------------------------------
# own writers

def fnum(x):
    return repr(float(x))


def write_input01(path, ds, volumes=None, freqs=None, energies=None, weights=None, qcoords=None, q_order=None,
                  mode_perm=None, volume_order=None):
    """Format taken from the shipped examples / qha's input format."""
    volumes = ds.volumes if volumes is None else volumes
    freqs = ds.file_frequencies() if freqs is None else freqs
    energies = ds.energies if energies is None else energies
    weights = ds.weights if weights is None else weights
    qcoords = ds.qcoords if qcoords is None else qcoords
    nq = freqs.shape[1]
    q_order = list(range(nq)) if q_order is None else q_order
    v_order = list(range(len(volumes))) if volume_order is None else volume_order
    lines = [" synthetic data set", " generated by the verification harness",
             " Number of volumes (nv), q-vectors (nq), normal modes (np), formula units(nm), numbers of atom(na):",
             "   %d   %d   %d   %d   %d" % (len(volumes), nq, freqs.shape[2], 1, ds.na), ""]
    for iv in v_order:
        lines.append(" P=    %.8f      V=     %s      E=    %s" % (0.0, fnum(volumes[iv]), fnum(energies[iv])))
        for iq in q_order:
            lines.append("   %.4f   %.4f   %.4f" % tuple(qcoords[iq]))
            modes = freqs[iv, iq]
            if mode_perm is not None:
                modes = modes[mode_perm[iq]]
            for m in modes:
                lines.append("   " + fnum(m))
    lines.append("")
    lines.append(" weight")
    for iq in q_order:
        lines.append("   %.4f   %.4f   %.4f   %s" % (tuple(qcoords[iq]) + (fnum(weights[iq]),)))
    with open(path, "w") as fp:
        fp.write("\n".join(lines) + "\n")


def write_input02(path, ds, keys=None, table=None, volumes=None, names=None, row_order=None, lattice=None,
                  with_lattice=None, comment="static elastic constants (synthetic)"):
    keys = ds.static_keys if keys is None else keys
    volumes = ds.static_volumes if volumes is None else volumes
    table = ds.static_full if table is None else table
    with_lattice = ds.spec["lattice"] if with_lattice is None else with_lattice
    names = ["c%d%d" % k for k in keys] if names is None else names
    rows = list(range(len(volumes))) if row_order is None else row_order
    lines = [comment, "%s %d %s" % (fnum(ds.vref), len(volumes), fnum(ds.spec["cellmass"])),
             "V " + " ".join(names)]
    for i in rows:
        lines.append(fnum(volumes[i]) + " " + " ".join(fnum(table[i, KEYS21.index(k)]) for k in keys))
    if with_lattice:
        lat = ds.lattice(volumes) if lattice is None else lattice
        lines.append(ds.spec.get("lat_header") or " lattice_a lattice_b lattice_c")
        for i in rows:
            lines.append(" ".join(fnum(x) for x in lat[i]))
    with open(path, "w") as fp:
        fp.write("\n".join(lines) + "\n")


def write_settings(path, ds, qha_settings, output=None, elast_extra=None, fmt=None, symmetry=None):
    s = ds.spec
    sym = {}
    if symmetry is not None:
        sym = symmetry
    elif s["apply_system"]:
        sym = {"system": s["system"]}
    else:
        sym = None
    elast_settings = {"mode_gamma": {"interpolator": s["interpolator"], "order": int(s["order"])}}
    if sym is not None:
        elast_settings["symmetry"] = sym
    if elast_extra:
        elast_settings.update(elast_extra)
    cfg = {"qha": {"input": "input01", "settings": qha_settings},
           "elast": {"input": "input02", "settings": elast_settings},
           "output": output if output is not None else {"volume_base": ["p"]}}
    fmt = fmt or s["fmt"]
    if fmt == "json":
        with open(path, "w") as fp:
            json.dump(cfg, fp, indent=1)
    else:
        import yaml
        with open(path, "w") as fp:
            yaml.safe_dump(cfg, fp)
    return cfg


class Workdir:
    """Fresh temporary directory, removed afterwards."""

    def __init__(self, prefix="cijds-"):
        self.prefix = prefix

    def __enter__(self):
        self.path = tempfile.mkdtemp(prefix=self.prefix)
        return self.path

    def __exit__(self, *a):
        shutil.rmtree(self.path, ignore_errors=True)


class ReusedWorkdir:
    """The same directory for every case of this process (files of the previous case removed, the directory and hence every
    file path stay): users re-run commands in one directory, nothing may be remembered about a path."""

    def __init__(self, tag):
        self.tag = tag

    def __enter__(self):
        return reused_dir(self.tag)

    def __exit__(self, *a):
        pass


# ----------------------------------------------------------------------------------------------------
# pressure range from the third-party qha package directly (trusted producer of P(T,V))

def qha_pressure_range(ds, qha_settings, cells=False):
    """(lo, hi) in GPa of the pressure range reachable at every temperature, or None if P(T,V) is not
    monotonic on the dense grid.  Uses qha.calculator.Calculator directly (no cij)."""
    import qha.calculator
    from qha.settings import DEFAULT_SETTINGS
    import copy
    st_ = copy.copy(DEFAULT_SETTINGS)
    st_.update(qha_settings)
    calc = qha.calculator.Calculator(st_)
    calc._formula_unit_number = 1
    calc._volumes = np.array(ds.volumes, dtype=float)
    calc._static_energies = np.array(ds.energies, dtype=float)
    calc._frequencies = np.array(ds.file_frequencies(), dtype=float)
    calc._q_weights = np.array(ds.weights, dtype=float)
    calc.refine_grid()
    p = np.asarray(calc.p_tv_gpa)
    if not np.all(np.diff(p, axis=1) > 0):
        return None
    if cells:
        # (lo, hi, upper end of the first cell, lower end of the last cell) - each at its most restrictive temperature
        return float(p[:, 0].max()), float(p[:, -1].min()), float(p[:, 1].max()), float(p[:, -2].min())
    return float(p[:, 0].max()), float(p[:, -1].min())


def place_pressures(ds, base_settings=None, edge=None):
    """Choose P_MIN and DELTA_P inside the reachable range with a margin >= 10 % at both ends (edge=None), or with the
    lowest / highest requested pressure inside the first / last cell of the P(T,V) table (edge='low' / 'high': still inside
    the range at every temperature, 25-75 % into that cell).  Returns the qha settings dict or None when unusable."""
    s = ds.spec
    probe = ds.qha_settings(0.0, 1.0, base_settings)
    rng_ = qha_pressure_range(ds, probe, cells=True)
    if rng_ is None:
        return None
    lo, hi, lo2, hi2 = rng_
    R = hi - lo
    if not (R > 1.0):
        return None
    p_min = lo + s["f0"] * R
    top = p_min + s["f1"] * R
    if edge == "low" and lo2 > lo:
        p_min = lo + (0.25 + 0.5 * s["f0"]) * (lo2 - lo)
    if edge == "high" and hi2 < hi:
        top = hi - (0.25 + 0.5 * s["f0"]) * (hi - hi2)
    delta_p = (top - p_min) / max(1, s["ntv"] - 1)
    p_min = float("%.6f" % p_min)
    delta_p = float("%.8f" % delta_p)
    out = ds.qha_settings(p_min, delta_p, base_settings)
    return out, (lo, hi)


def materialise(ds, workdir, qha_settings, **kw):
    write_input01(os.path.join(workdir, "input01"), ds)
    write_input02(os.path.join(workdir, "input02"), ds)
    ext = "json" if (kw.get("fmt") or ds.spec["fmt"]) == "json" else "yaml"
    path = os.path.join(workdir, "settings." + ext)
    cfg = write_settings(path, ds, qha_settings, **kw)
    return path, cfg


# ----------------------------------------------------------------------------------------------------
# shipped examples, read with an own minimal parser (so that they can be re-presented by the own writers)

class ExampleDataset:
    """Duck-type of Dataset for the writers, filled from examples/<name>/ of the repository under test."""

    def __init__(self, name, repo=None):
        import re
        import yaml
        from . import REPO
        base = os.path.join(repo or REPO, "examples", name)
        self.name = name
        with open(os.path.join(base, "settings.yaml")) as fp:
            self.settings = yaml.safe_load(fp)
        f1 = os.path.join(base, self.settings["qha"]["input"])
        f2 = os.path.join(base, self.settings["elast"]["input"])
        lines = open(f1).read().splitlines()
        i = 0
        while not re.fullmatch(r"\s*\d+\s+\d+\s+\d+\s+\d+\s+\d+\s*", lines[i]):
            i += 1
        nv, nq, npm, nm, na = map(int, lines[i].split())
        i += 1
        vols, ens, freqs, qc = [], [], np.zeros((nv, nq, npm)), np.zeros((nq, 3))
        num = r"[-+]?\d*\.?\d+(?:[eEdD][-+]?\d+)?"
        for iv in range(nv):
            while "=" not in lines[i]:
                i += 1
            vals = re.findall(r"=\s*(" + num + ")", lines[i])
            vols.append(float(vals[1]))
            ens.append(float(vals[2]))
            i += 1
            for iq in range(nq):
                qc[iq] = [float(x) for x in lines[i].split()[:3]]
                i += 1
                for m in range(npm):
                    freqs[iv, iq, m] = float(lines[i].split()[0])
                    i += 1
        while lines[i].strip().lower() not in ("weight", "weights"):
            i += 1
        i += 1
        w = []
        for iq in range(nq):
            w.append(float(lines[i].split()[3]))
            i += 1
        self.nv, self.nq, self.npm, self.na, self.nm = nv, nq, npm, na, nm
        self.volumes = np.array(vols)
        self.energies = np.array(ens)
        self._freqs = freqs
        self.qcoords = qc
        self.weights = np.array(w)
        # static table
        lines = [l for l in open(f2).read().splitlines()]
        vref, n2, mass = lines[1].split()[:3]
        self.vref = float(vref)
        n2 = int(n2)
        head = lines[2].split()
        keys = []
        for h in head[1:]:
            dig = re.search(r"(\d+)$", h).group(1)
            if len(dig) == 2:
                k = tuple(sorted((int(dig[0]), int(dig[1]))))
            else:
                from .reftensor import canon
                k = canon(*map(int, dig))
            keys.append(k)
        self.static_keys = keys
        rows = [[float(x) for x in lines[3 + r].split()] for r in range(n2)]
        self.static_volumes = np.array([r[0] for r in rows])
        self.nv_static = n2
        self.static_full = np.zeros((n2, 21))
        for j, k in enumerate(keys):
            self.static_full[:, KEYS21.index(k)] = [r[1 + j] for r in rows]
        rest = [l for l in lines[3 + n2:] if l.strip()]
        self._lattice = None
        if len(rest) >= n2 + 1:
            self._lattice = np.array([[float(x) for x in l.split()[:3]] for l in rest[1:1 + n2]])
        sym = self.settings["elast"]["settings"].get("symmetry", {})
        self.system = sym.get("system", "triclinic")
        self.spec = {"cellmass": float(mass), "lattice": self._lattice is not None, "apply_system": "system" in sym,
                     "system": self.system, "fmt": "yaml",
                     "interpolator": self.settings["elast"]["settings"]["mode_gamma"]["interpolator"],
                     "order": self.settings["elast"]["settings"]["mode_gamma"]["order"]}

    def file_frequencies(self):
        return self._freqs

    def lattice(self, volumes):
        return self._lattice

    def qha_settings(self, nt=3, dt=300.0):
        q = dict(self.settings["qha"]["settings"])
        q.update({"NT": nt, "DT": dt, "DT_SAMPLE": dt, "T_MIN": 0})
        q["DELTA_P_SAMPLE"] = q.get("DELTA_P", 1)
        return q


# ----------------------------------------------------------------------------------------------------
_REUSED = {}


def cleanup_reused():
    for (pid, tag), d in list(_REUSED.items()):
        if pid == os.getpid():
            shutil.rmtree(d, ignore_errors=True)
            del _REUSED[(pid, tag)]


def reused_dir(tag):
    """One directory per process and tag, re-used by successive cases (its files are rewritten): users re-run
    calculations in the same directory, so nothing may be remembered about a path.  Removed at interpreter exit."""
    import atexit
    d = _REUSED.get((os.getpid(), tag))
    if d is None or not os.path.isdir(d):
        d = tempfile.mkdtemp(prefix="cijreuse-%s-" % tag)
        _REUSED[(os.getpid(), tag)] = d
        atexit.register(shutil.rmtree, d, True)
    for f in os.listdir(d):
        fp = os.path.join(d, f)
        if os.path.isdir(fp):
            shutil.rmtree(fp, ignore_errors=True)
        else:
            os.remove(fp)
    return d
