"""Verification machinery for MineralsCloud/cij (property-based testing and fuzzing).

Importing this package puts the repository under test ($VERIF_REPO, default /repo) first on
sys.path, so that `import cij` resolves to the current working tree.
"""
import os
import sys

REPO = os.path.abspath(os.environ.get("VERIF_REPO", "/repo"))
VERIF = os.path.dirname(os.path.dirname(os.path.abspath(__file__)))

if REPO not in sys.path[:1]:
    sys.path.insert(0, REPO)


LAST_VIOLATION = [None]


class PropertyViolation(AssertionError):
    """The code under test broke the property.  `bucket` names the clause and the
    discriminating part of the input (root-cause class); `case` is a JSON-serialisable,
    self-contained description of the failing input that `replay` accepts."""

    def __init__(self, bucket, message, case=None):
        super().__init__("%s: %s" % (bucket, message))
        self.bucket = bucket
        self.message = message
        self.case = case
        LAST_VIOLATION[0] = self


class HarnessError(Exception):
    """The harness itself cannot decide (import surface changed, tool missing ...): exit 2."""


def import_cij():
    import cij  # noqa
    path = os.path.abspath(cij.__file__)
    if not path.startswith(REPO + os.sep):
        raise HarnessError("cij imported from %s, expected under %s" % (path, REPO))
    return cij


# keep the code under test quiet (its loggers write warnings for every calculation)
import logging as _logging
_logging.getLogger("cij").setLevel(_logging.CRITICAL)
_logging.getLogger("cij.core.calculator").setLevel(_logging.CRITICAL)
