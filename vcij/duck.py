"""Duck-typed calculator for observing the phonon-contribution classes in isolation (C01-C04).

The attribute surface the contribution classes read is listed here, in one place:
  calculator.qha_calculator.volume_base.{heat_capacity, pressures}
  calculator.{nv, np, nq, na, v_array, t_array, freq_array, mode_gamma, static_p_array}
  calculator.qha_input.weights  -> list of (coord, weight)
A mismatch (AttributeError on the duck object itself) is a harness error, not a verdict.
"""
import numpy as np
from hypothesis import strategies as st


class _NS:
    def __init__(self, **kw):
        self.__dict__.update(kw)


class DuckCalculator:
    def __init__(self, spec):
        """spec: dict with arrays nu, gam, g (ntv,nq,np), weights (nq,), T (nt,), V (ntv,),
        pressures (nt,ntv), static_p (ntv,), cv (nt,ntv), na"""
        nu = np.array(spec["nu"], dtype=float)
        ntv, nq, npm = nu.shape
        self.nv = ntv
        self.nq = nq
        self.np = npm
        self.na = int(spec["na"])
        self.v_array = np.array(spec["V"], dtype=float)
        self.t_array = np.array(spec["T"], dtype=float)
        self.freq_array = nu
        gam = np.array(spec["gam"], dtype=float)
        g = np.array(spec["g"], dtype=float)
        self.mode_gamma = [g, gam, gam ** 2]
        self.static_p_array = np.array(spec["static_p"], dtype=float)
        self.qha_input = _NS(weights=[((0.0, 0.0, float(i)), float(w)) for i, w in enumerate(spec["weights"])])
        vb = _NS(heat_capacity=np.array(spec["cv"], dtype=float),
                 pressures=np.array(spec["pressures"], dtype=float))
        self.qha_calculator = _NS(volume_base=vb)


def expand_spectrum(seed, ntv, nq, na, garbage_acoustic, uniform_gamma=False):
    """Large numeric payload from a Hypothesis-drawn 32-bit integer (structure is drawn by Hypothesis)."""
    rng = np.random.default_rng(seed)
    npm = 3 * na
    nu = rng.uniform(30.0, 1500.0, size=(ntv, nq, npm))
    gam = rng.uniform(-3.0, 4.0, size=(ntv, nq, npm))
    g = rng.uniform(-5.0, 5.0, size=(ntv, nq, npm))
    if uniform_gamma:
        gam[...] = gam.flat[0]
    if garbage_acoustic:
        nu[:, 0, :3] = rng.uniform(-1e3, 1e5, size=(ntv, 3))
        gam[:, 0, :3] = rng.uniform(-1e3, 1e3, size=(ntv, 3))
        g[:, 0, :3] = rng.uniform(-1e3, 1e3, size=(ntv, 3))
    else:
        nu[:, 0, :3] = 0.0
        gam[:, 0, :3] = 0.0
        g[:, 0, :3] = 0.0
    return nu, gam, g


@st.composite
def temperatures(draw, min_size=1, max_size=6, low_floor=0.5):
    """Temperature grids with forced classes: T=0 present; some T<5 K; some T>2000 K."""
    n = draw(st.integers(min_size, max_size))
    cls = draw(st.lists(st.sampled_from(["zero", "low", "mid", "high"]), min_size=n, max_size=n))
    out = []
    for c in cls:
        if c == "zero":
            out.append(0.0)
        elif c == "low":
            out.append(draw(st.floats(low_floor, 5.0)))
        elif c == "mid":
            out.append(draw(st.floats(5.0, 2000.0)))
        else:
            out.append(draw(st.floats(2000.0, 5000.0)))
    return out


@st.composite
def duck_specs(draw, max_nq=8, max_na=10, max_ntv=6, max_nt=6, low_floor=0.5, long_grids=False):
    nq = draw(st.integers(1, max_nq))
    na = draw(st.integers(1, max_na))
    ntv = draw(st.integers(1, max_ntv))
    if long_grids and draw(st.integers(0, 9)) == 0:
        # long regular temperature grids (the packaged default is NT=16, users run hundreds of temperatures)
        nq, na, ntv = min(nq, 3), min(na, 3), min(ntv, 3)
        n = draw(st.sampled_from([65, 70, 129, 150, 257, 300]))
        t0 = draw(st.sampled_from([0.0, 0.0, 10.0, 300.0]))
        dt = draw(st.sampled_from([1.0, 10.0, 25.0]))
        T = [t0 + dt * k for k in range(n)]
    elif long_grids and draw(st.integers(0, 19)) == 0:
        # dense Brillouin-zone meshes (the shipped diopside example has 150 q-points, production meshes have more)
        nq, na, ntv = draw(st.sampled_from([257, 300, 513])), 1, 1
        T = draw(temperatures(1, 2, low_floor))
    else:
        T = draw(temperatures(1, max_nt, low_floor))
    seed = draw(st.integers(0, 2 ** 32 - 1))
    garbage = draw(st.booleans())
    weights = draw(st.lists(st.floats(1e-3, 1e3), min_size=nq, max_size=nq))
    V = sorted(draw(st.lists(st.floats(50.0, 3000.0), min_size=ntv, max_size=ntv)), reverse=True)
    return {"nq": nq, "na": na, "ntv": ntv, "T": T, "seed": seed, "garbage": garbage,
            "weights": weights, "V": V}


def build_duck_spec(s):
    """Expand a drawn structure into the full (self-contained) spec used by oracle and duck."""
    nu, gam, g = expand_spectrum(s["seed"], s["ntv"], s["nq"], s["na"], s["garbage"])
    rng = np.random.default_rng(s["seed"] ^ 0x5F5F)
    nt = len(s["T"])
    full = dict(s)
    full.update(nu=nu, gam=gam, g=g,
                pressures=rng.uniform(-1e-2, 1e-2, size=(nt, s["ntv"])),
                static_p=rng.uniform(-1e-2, 1e-2, size=(s["ntv"],)),
                # any positive field: down to the 1e-14 Ry/K of a small cell on a low-temperature row
                cv=10.0 ** rng.uniform(-14 if s["seed"] % 3 == 0 else -8, -2, size=(nt, s["ntv"])))
    return full
