"""Own parsers for cij output tables (QHA table layout) and command stdout."""
import numpy as np


def parse_qha_table(path_or_text, is_text=False):
    """Table written by qha's save_x_tp / save_x_tv: header line '<name> col col ...', then one line per row
    '<row label> v v ...'.  Returns (name, row_labels, col_labels, values, raw_value_tokens)."""
    text = path_or_text if is_text else open(path_or_text).read()
    lines = [l for l in text.splitlines() if l.strip()]
    head = lines[0].split()
    name, cols = head[0], [float(x) for x in head[1:]]
    rows, vals, raw = [], [], []
    for l in lines[1:]:
        tok = l.split()
        rows.append(float(tok[0]))
        vals.append([float(x) for x in tok[1:]])
        raw.append(tok[1:])
    return name, np.array(rows), np.array(cols), np.array(vals), raw


def parse_frame_stdout(text, index=True):
    """pandas DataFrame.to_string output -> (columns, index labels or None, values)."""
    lines = [l for l in text.splitlines() if l.strip()]
    cols = lines[0].split()
    idx, vals = [], []
    for l in lines[1:]:
        tok = l.split()
        if index:
            idx.append(tok[0])
            tok = tok[1:]
        vals.append([float(x) for x in tok])
    return cols, (idx if index else None), np.array(vals)
